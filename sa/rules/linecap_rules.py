"""C03 - rule LINECAP: the block cursor never leaves the region.

Clause decided: `state.line <= state.lineMax` holds whenever a block rule or the block dispatcher returns, and `lineMax` itself
is only ever shrunk inside the region or restored.  Every map end is the cursor (rule MAP), so this is the `e <= number of input
lines` part of the property: `lineMax` starts as the number of lines and only block rules write it.

It is a co-inductive contract over the block rules R and the dispatcher T = ParserBlock.tokenize:

  pre (at every non-validating dispatch of a rule, and every call of T):  start < end (rules only),  end <= state.lineMax,
                                                                           state.line <= start
  post (assumed after such a call, proved at every return of every member):  state.line <= state.lineMax
  frame: a member leaves state.lineMax as it found it (rule CTX proves the restoration), a validating dispatch (silent=True
         literal) writes nothing (rule SILENT)

Within a member the zone facts are computed under pre, with the post of callees added after each call; a store
`state.line = E` / a return is discharged when the facts entail the bound - directly, or per partition of a trace partitioning
on one local flag (`haveEndMarker`, `level`: "the flag is set only where nextLine < endLine").  The pre is validated at every
call site.  `state.lineMax = E` stores must satisfy E <= state.lineMax (shrink) or restore the entry value.
"""
from __future__ import annotations

import ast

from ..cfg import CFG
from ..core import Func, U, own_nodes
from ..ctx import Ctx
from ..facts import ZERO, Facts, FactsProblem, PartitionedFacts, T, lin
from ..dataflow import solve
from ..report import RuleResult, alpha
from .total_rules import _tested_flags, _truthiness

# reviewed: stores whose bound is a count the zone domain cannot express.  Keyed by function and alpha-normalised statement.
LINECAP_EXEMPT = {
    ("reference", "count"):
        "state.line = startLine + lines + 1 where `lines` counts the newlines of the definition inside the paragraph-continuation "
        "text getLines(startLine, nextLine) (nextLine <= endLine = lineMax): a count, not a linear bound",
}


_CTX: list = []          # the Ctx of the running rule (for resolving helper calls in _is_counter)


def _count_amount(f: Func, v: ast.AST, seen: frozenset) -> bool:
    """An amount a counter may be increased by: a literal, `<result>.lines`, another counter, or the counter component of a
    helper's tuple result (`pos, n = _skip(...)` where every return of _skip is `(.., <counter>)`)."""
    if isinstance(v, ast.Constant) and isinstance(v.value, int):
        return True
    if isinstance(v, ast.Attribute) and v.attr == "lines":
        return True
    if isinstance(v, ast.Name):
        defs = [n for n in own_nodes(f.node) if isinstance(n, (ast.Assign, ast.AugAssign)) and any(
            isinstance(x, ast.Name) and x.id == v.id and isinstance(x.ctx, ast.Store) for t in (n.targets if isinstance(n, ast.Assign) else [n.target]) for x in ast.walk(t))]
        if not defs:
            return False
        ok = True
        for d in defs:
            if isinstance(d, ast.Assign) and len(d.targets) == 1 and isinstance(d.targets[0], ast.Tuple) and isinstance(d.value, ast.Call) and _CTX:
                j = next((i for i, e in enumerate(d.targets[0].elts) if isinstance(e, ast.Name) and e.id == v.id), None)
                cs = _CTX[0].cg.site_of.get(d.value)
                if j is None or cs is None or len(cs.callees) != 1:
                    ok = False
                    break
                h = cs.callees[0]
                rets = [r_ for r_ in own_nodes(h.node) if isinstance(r_, ast.Return)]
                if not rets or not all(isinstance(r_.value, ast.Tuple) and j < len(r_.value.elts) and isinstance(r_.value.elts[j], ast.Name)
                                       and _is_counter(h, r_.value.elts[j].id) for r_ in rets):
                    ok = False
                    break
            else:
                ok = False
                break
        if ok:
            return True
        return _is_counter(f, v.id, seen)
    return False


def _is_counter(f: Func, name: str, seen: frozenset = frozenset()) -> bool:
    """A local that only counts: every definition is a literal, `+= <amount>` (see _count_amount), or a copy of another counter."""
    if name in seen:
        return True
    seen = seen | {name}
    found = False
    for n in own_nodes(f.node):
        if isinstance(n, ast.Assign) and any(isinstance(t, ast.Name) and t.id == name for t in n.targets):
            found = True
            v = n.value
            if isinstance(v, ast.Constant) and isinstance(v.value, int):
                continue
            if isinstance(v, ast.Name) and _is_counter(f, v.id, seen):
                continue
            # name = name + 1 / name = name + <result>.lines  (the expanded form of +=)
            if isinstance(v, ast.BinOp) and isinstance(v.op, ast.Add):
                sides = [v.left, v.right]
                me = [x for x in sides if isinstance(x, ast.Name) and x.id == name]
                inc = [x for x in sides if not (isinstance(x, ast.Name) and x.id == name)]
                if len(me) == 1 and len(inc) == 1 and _count_amount(f, inc[0], seen):
                    continue
            return False
        if isinstance(n, ast.AugAssign) and isinstance(n.target, ast.Name) and n.target.id == name:
            found = True
            v = n.value
            if isinstance(n.op, ast.Add) and _count_amount(f, v, seen):
                continue
            return False
        if isinstance(n, ast.Name) and n.id == name and isinstance(n.ctx, ast.Store) and not isinstance(
                f.module.parents.get(n), (ast.Assign, ast.AugAssign)):
            par = f.module.parents.get(n)
            gp = f.module.parents.get(par) if par is not None else None
            # `pos, lines = <helper result / saved pair>`: the count travels with the position it belongs to
            if isinstance(par, ast.Tuple) and isinstance(gp, ast.Assign) and par in gp.targets and isinstance(gp.value, (ast.Call, ast.Name, ast.Attribute)):
                found = True
                continue
            return False
    return found


def _count_form(f: Func, value: ast.AST, start: str | None) -> bool:
    """start + <counter> + literal"""
    names = [n.id for n in ast.walk(value) if isinstance(n, ast.Name)]
    if start is None or sorted(names) != sorted(set(names)) or start not in names or len(names) != 2:
        return False
    ok_shape = all(isinstance(n, (ast.BinOp, ast.Name, ast.Constant, ast.Add, ast.Load)) for n in ast.walk(value))
    other = [x for x in names if x != start][0]
    return ok_shape and _is_counter(f, other)


def _single_def(f: Func, e: ast.AST) -> ast.AST:
    """A local with one definition stands for that definition (defEnd = startLine + lines + 1; state.line = defEnd)."""
    if isinstance(e, ast.Name):
        ds = [n.value for n in own_nodes(f.node) if isinstance(n, ast.Assign) and any(isinstance(t, ast.Name) and t.id == e.id for t in n.targets)]
        if len(ds) == 1:
            return ds[0]
    return e


def _members(c: Ctx) -> tuple[list[Func], Func]:
    rules = []
    for reg in c.reg.rules["block"]:
        if reg.func not in rules:
            rules.append(reg.func)
    tok = c.p.func("parser_block.py:ParserBlock.tokenize")
    return rules, tok


def _params(f: Func, tok: Func) -> tuple[str, str, str]:
    a = [x.arg for x in f.node.args.args]
    if f is tok:
        a = a[1:]
    return a[0], a[1], a[2]


def _is_silent_dispatch(call: ast.Call) -> bool:
    return len(call.args) >= 4 and isinstance(call.args[3], ast.Constant) and call.args[3].value is True


class _Model:
    def __init__(self, c: Ctx) -> None:
        self.c = c
        self.rules, self.tok = _members(c)
        self.members = set(self.rules) | {self.tok}
        self._summ: dict[Func, bool] = {}
        # derived members: private helpers (extract-method) that store the cursor of a StateBlock parameter.  They are analysed
        # under the facts that hold at their call sites and owe the same post-condition.
        self.derived: dict[Func, str] = {}
        for g in c.cg.parse_phase():
            if g in self.members or g.cls == "StateBlock":
                continue
            sc = c.tf.scope(g)
            params = [a.arg for a in g.node.args.posonlyargs + g.node.args.args]
            for n in own_nodes(g.node):
                if isinstance(n, (ast.Assign, ast.AugAssign)):
                    for t in (n.targets if isinstance(n, ast.Assign) else [n.target]):
                        if isinstance(t, ast.Attribute) and t.attr == "line" and isinstance(t.value, ast.Name) \
                                and sc.env.get(t.value.id) == "StateBlock" and t.value.id in params:
                            self.derived[g] = t.value.id
            # ... or that dispatch the rules / call the dispatcher themselves (outside validation mode)
            if g not in self.derived:
                for cs in c.cg.sites.get(g, []):
                    if cs.callees and all(h in self.members for h in cs.callees) and len(cs.node.args) >= 3 and not _is_silent_dispatch(cs.node) \
                            and isinstance(cs.node.args[0], ast.Name) and cs.node.args[0].id in params \
                            and sc.env.get(cs.node.args[0].id) == "StateBlock":
                        self.derived[g] = cs.node.args[0].id

    def silent_pure(self, g: Func, depth: int = 0) -> bool:
        """g writes nothing outside its own locals except through dispatches in validation mode (which are pure, rule SILENT):
        a helper that wraps the terminator probe loop."""
        cache = self.__dict__.setdefault("_sp", {})
        if g in cache:
            return cache[g]
        cache[g] = False
        ok = all(e.category in ("local", "scalar") for e in self.c.eff.by_func.get(g, []))
        has_silent = False
        if ok:
            for cs in self.c.cg.sites.get(g, []):
                if cs.kind in ("external",):
                    continue
                if cs.kind.startswith("dispatch:") or (cs.callees and all(h in self.members for h in cs.callees)):
                    if _is_silent_dispatch(cs.node):
                        has_silent = True
                        continue
                    ok = False
                    break
                if not cs.callees:
                    if cs.kind in ("unknown", "param"):
                        ok = False
                        break
                    continue
                for h in cs.callees:
                    if self.c.eff.writes.get(h) and not (depth < 2 and self.silent_pure(h, depth + 1)):
                        ok = False
                if not ok:
                    break
        cache[g] = ok and has_silent
        return cache[g]

    def derived_call(self, call: ast.Call) -> tuple[Func, str] | None:
        cs = self.c.cg.site_of.get(call)
        if cs is None or len(cs.callees) != 1 or cs.callees[0] not in self.derived:
            return None
        g = cs.callees[0]
        a = self.c.eff.arg_for_param(cs, g, self.derived[g])
        if a is None:
            return None
        return g, U(a)

    def unchanged_when(self, g: Func) -> set[bool]:
        """Constant results of a derived member on which it has not stored the cursor: every path through a store of
        <state>.line ends in `return <the other constant>`."""
        cfg = self.c.cfg(g)
        st = self.derived[g]
        stores = [n for n in cfg.nodes if n.kind == "stmt" and isinstance(n.ast, (ast.Assign, ast.AugAssign))
                  and f"{st}.line" in [U(t) for t in (n.ast.targets if isinstance(n.ast, ast.Assign) else [n.ast.target])]]
        reach = cfg.reachable_from(stores) if stores else set()
        out = {True, False}
        for n in cfg.nodes:
            if n.kind == "stmt" and isinstance(n.ast, ast.Return) and n.id in reach:
                v = n.ast.value
                if isinstance(v, ast.Constant) and isinstance(v.value, bool):
                    out.discard(v.value)
                else:
                    return set()
        if any(p.id in reach and not (p.kind == "stmt" and isinstance(p.ast, (ast.Return, ast.Raise))) for (p, _) in cfg.exit.pred):
            return set()
        return out

    def member_call(self, call: ast.Call) -> tuple[str, ast.AST, ast.AST] | None:
        """(state text, start arg, end arg) if the call is a dispatch of block rules or a call of the dispatcher."""
        cs = self.c.cg.site_of.get(call)
        if cs is None or not cs.callees or not all(g in self.members for g in cs.callees):
            return None
        if len(call.args) < 3:
            return None
        return U(call.args[0]), call.args[1], call.args[2]

    def kills(self, f: Func):
        base = self.c.eff.call_kills(f)

        def k(call: ast.Call):
            mc = self.member_call(call)
            if mc is None:
                cs0 = self.c.cg.site_of.get(call)
                if cs0 is not None and cs0.callees and cs0.kind in ("direct", "method") and all(self.silent_pure(h) for h in cs0.callees):
                    return ()                           # a wrapper around validation-mode probes only
                dc = self.derived_call(call)
                if dc is not None and not any(isinstance(t, ast.Attribute) and t.attr == "lineMax" for n in own_nodes(dc[0].node)
                                              if isinstance(n, (ast.Assign, ast.AugAssign))
                                              for t in (n.targets if isinstance(n, ast.Assign) else [n.target])):
                    return [p for p in base(call) if p != f"{dc[1]}.lineMax"]     # only members write lineMax below it, and restore it
                return base(call)
            if _is_silent_dispatch(call):
                return ()                               # validation mode is pure (rule SILENT)
            return [p for p in base(call) if p != f"{mc[0]}.lineMax"]      # lineMax is restored (rule CTX)
        return k

    def posts(self, call: ast.Call):
        mc = self.member_call(call)
        if mc is None:
            dc = self.derived_call(call)
            if dc is not None:
                return [(f"{dc[1]}.line", f"{dc[1]}.lineMax", 0)]
            return ()
        if _is_silent_dispatch(call):
            return ()
        return [(f"{mc[0]}.line", f"{mc[0]}.lineMax", 0)]

    def helper_bounded(self, g: Func) -> bool:
        """Helper summary, derived: a StateBlock method  h(self, p)  returns a value <= self.lineMax when p <= self.lineMax."""
        if g in self._summ:
            return self._summ[g]
        ok = False
        a = g.node.args.args
        if g.cls == "StateBlock" and len(a) == 2:
            me, p = a[0].arg, a[1].arg
            z = Facts()
            z.add(p, f"{me}.lineMax", 0)
            cfg = self.c.cfg(g)
            res = solve(cfg, FactsProblem(cfg, z, self.c.eff.call_kills(g)))
            rets = [n for n in cfg.nodes if n.kind == "stmt" and isinstance(n.ast, ast.Return)]
            ok = bool(rets)
            for n in rets:
                zz = res.get(n.id)
                if zz is None:
                    continue
                def le_cap(e: ast.AST | None) -> bool:
                    if e is None:
                        return False
                    if isinstance(e, ast.Call) and isinstance(e.func, ast.Name) and e.func.id == "max" and e.args and not e.keywords:
                        return all(le_cap(a_) for a_ in e.args)
                    if isinstance(e, ast.Call) and isinstance(e.func, ast.Name) and e.func.id == "min" and e.args and not e.keywords:
                        return any(le_cap(a_) for a_ in e.args)
                    if isinstance(e, ast.IfExp):
                        return le_cap(e.body) and le_cap(e.orelse)
                    l = lin(e)
                    return l is not None and zz.entails(T(l[0]), f"{me}.lineMax", -l[1])
                if not le_cap(n.ast.value):
                    ok = False
        self._summ[g] = ok
        return ok

    def _ret_bound(self, zz: Facts, e: ast.AST, p: str) -> int | None:
        """smallest k with  e <= p + k  entailed by zz (None if none)"""
        if isinstance(e, ast.Call) and isinstance(e.func, ast.Name) and e.func.id == "max" and e.args and not e.keywords:
            ks = [self._ret_bound(zz, a, p) for a in e.args]
            return None if any(k is None for k in ks) else max(ks)          # type: ignore[type-var]
        if isinstance(e, ast.Call) and isinstance(e.func, ast.Name) and e.func.id == "min" and e.args and not e.keywords:
            ks = [k for k in (self._ret_bound(zz, a, p) for a in e.args) if k is not None]
            return min(ks) if ks else None
        if isinstance(e, ast.IfExp):
            a, b = self._ret_bound(zz, e.body, p), self._ret_bound(zz, e.orelse, p)
            return None if a is None or b is None else max(a, b)
        l = lin(e)
        if l is None:
            return None
        if T(l[0]) == p:
            return l[1]
        zz.close()
        k = zz.d.get((T(l[0]), p))
        return None if k is None else k + l[1]

    def helper_result_bounds(self, call: ast.Call, z: Facts):
        """Upper bounds of the value a private helper returns, in the caller's terms: the helper is analysed under what this call
        site establishes between its arguments, and `ret <= param + k` must hold at every return."""
        cs = self.c.cg.site_of.get(call)
        if cs is None or len(cs.callees) != 1 or cs.kind not in ("direct", "method"):
            return ()
        h = cs.callees[0]
        if h in self.members or h in self.derived or h.cls == "StateBlock":
            return ()
        params = [a.arg for a in h.node.args.posonlyargs + h.node.args.args]
        amap: dict[str, tuple[str, int]] = {}
        for pn in params:
            a = self.c.eff.arg_for_param(cs, h, pn)
            la = lin(a) if a is not None else None
            if la is not None and la[0] is not None:
                amap[pn] = (la[0], la[1])
        if len(amap) < 1:
            return ()
        z = z.copy()
        z.close()
        entry = Facts()
        for p1, (t1, o1) in amap.items():
            for p2, (t2, o2) in amap.items():
                if p1 != p2:
                    k = 0 if t1 == t2 else z.d.get((t1, t2))
                    if k is not None:
                        entry.add(p1, p2, k + o1 - o2)          # p1 = t1 + o1, p2 = t2 + o2
        entry.close()
        hkey = (h, frozenset(entry.d.items()))
        hcache = self.__dict__.setdefault("_hrb", {})
        if hkey not in hcache:
            cfg = self.c.cfg(h)
            res = solve(cfg, FactsProblem(cfg, entry, self.c.eff.call_kills(h), self.c.bool_summary))
            rets = [n for n in cfg.nodes if n.kind == "stmt" and isinstance(n.ast, ast.Return) and res.get(n.id) is not None]
            summ: dict[str, int] | None = {}
            if not rets or any(n.ast.value is None for n in rets):
                summ = None
            elif any(p.kind != "stmt" or not isinstance(p.ast, (ast.Return, ast.Raise)) for (p, l_) in cfg.exit.pred if res.get(p.id) is not None and l_ != "exc"):
                summ = None
            else:
                for pn in params:
                    ks = [self._ret_bound(res[n.id].copy(), n.ast.value, pn) for n in rets]
                    if all(k is not None for k in ks):
                        summ[pn] = max(ks)          # type: ignore[type-var]
            hcache[hkey] = summ
        summ = hcache[hkey]
        if not summ:
            return ()
        return [(amap[pn][0], K + amap[pn][1]) for pn, K in summ.items() if pn in amap]          # ret <= pn + K = t + o + K

    def result_bounds(self, call: ast.Call, z: Facts):
        hb = list(self.helper_result_bounds(call, z))
        if hb:
            return hb
        cs = self.c.cg.site_of.get(call)
        if cs is None or not cs.callees or len(call.args) != 1 or not isinstance(call.func, ast.Attribute):
            return ()
        if not all(self.helper_bounded(g) for g in cs.callees):
            return ()
        recv = U(call.func.value)
        l = lin(call.args[0])
        if l is None or not _le(z, T(l[0]), l[1], f"{recv}.lineMax"):
            return ()
        return [(f"{recv}.lineMax", 0)]

    def problem(self, f: Func, cfg: CFG, entry: Facts) -> FactsProblem:
        return _LinecapProblem(self, f, cfg, entry)


class _LinecapProblem(FactsProblem):
    """Facts under the block contract.  In addition to the post-condition added after every member call: when a dispatch is
    used as a condition, its failing edge keeps what was known about the cursor - a rule that reports no match has not moved it
    (obligation O4 of this rule)."""

    def __init__(self, m: _Model, f: Func, cfg: CFG, entry: Facts) -> None:
        super().__init__(cfg, entry, m.kills(f), m.c.bool_summary, m.posts, m.result_bounds)
        self.m = m

    def edge(self, n, state, label, succ):
        z = super().edge(n, state, label, succ)
        if z is None or n.kind != "test" or label not in ("T", "F") or n.ast is None:
            return z
        e, pos = n.ast, label == "T"
        while isinstance(e, ast.UnaryOp) and isinstance(e.op, ast.Not):
            e, pos = e.operand, not pos
        if not isinstance(e, ast.Call):
            return z
        dc = self.m.derived_call(e)
        if dc is not None:
            if pos not in self.m.unchanged_when(dc[0]):
                return z
            kline = f"{dc[1]}.line"
        else:
            if pos:
                return z
            mc = self.m.member_call(e)
            if mc is None or _is_silent_dispatch(e) or not all(g in self.m.rules for g in self.m.c.cg.site_of[e].callees):
                return z
            kline = f"{mc[0]}.line"
        state.close()
        for (a, b), k in state.d.items():
            other = b if a == kline else a if b == kline else None
            if other is not None and (other == ZERO or other.isidentifier()):
                z.add(a, b, k)
        return z


def _le(z: Facts, term: str, off: int, bound: str) -> bool:
    """term + off <= bound ?"""
    if z.entails(term, bound, -off):
        return True
    for (x, kk) in z.upper_bounds(term):          # through an alias of the bound (endLine = state.lineMax)
        if kk + off <= 0 and z.entails(x, bound, -(kk + off)):
            return True
    return False


def _entry(f: Func, tok: Func) -> Facts:
    st, start, end = _params(f, tok)
    z = Facts()
    z.add(start, end, -1 if f is not tok else 0)
    z.add(end, f"{st}.lineMax", 0)
    z.add(f"{st}.line", start, 0)
    return z


def _alts(e: ast.AST) -> list[tuple[ast.AST | None, bool, ast.AST]]:
    """Case split of `a + (1 if flag else 0)`: [(flag test, truth, expression with the IfExp replaced)]."""
    ifs = [n for n in ast.walk(e) if isinstance(n, ast.IfExp)]
    if len(ifs) != 1:
        return [(None, True, e)]
    ie = ifs[0]
    import copy
    out = []
    for truth, pick in ((True, ie.body), (False, ie.orelse)):
        class R(ast.NodeTransformer):
            def visit_IfExp(self, node):
                return copy.deepcopy(pick)
        out.append((ie.test, truth, R().visit(copy.deepcopy(e))))
    return out


def rule_linecap(c: Ctx) -> RuleResult:
    r = RuleResult("LINECAP", "the block cursor never leaves the region: state.line <= state.lineMax at every return of every block rule "
                              "and of the block dispatcher (co-inductive contract, validated at every dispatch / call site); lineMax is "
                              "only shrunk within the region or restored")
    c = c.normalised("rules_block/")
    r.notes += c.norm_notes()
    m = _Model(c)
    _CTX[:] = [c]
    n_sites = 0
    site_facts: dict[Func, list[tuple[Func, ast.Call, Facts]]] = {}      # derived member -> facts at each of its call sites

    def check_function(f: Func, st: str, start: str | None, end: str | None, entry: Facts) -> None:
        nonlocal n_sites
        r.functions += 1
        kline, kmax = f"{st}.line", f"{st}.lineMax"
        cfg = c.cfg(f)
        base = m.problem(f, cfg, entry)
        res = solve(cfg, base)
        contract = f"entry contract {start} < {end} <= {kmax}" if start else "facts holding at its call sites"
        for call_ in [x for x in own_nodes(f.node) if isinstance(x, ast.Call)]:
            dc_ = m.derived_call(call_)
            if dc_ is not None:
                for nd_ in cfg.owner(call_):
                    if res.get(nd_.id) is not None:
                        site_facts.setdefault(dc_[0], []).append((f, call_, res[nd_.id]))
        r.paths += min(cfg.paths_count(), 10**6)
        flags = sorted(_tested_flags(f.node, {n.id for n in own_nodes(f.node) if isinstance(n, ast.Name) and isinstance(n.ctx, ast.Store)}))
        part_cache: dict[str, dict] = {}

        def partitions(flag: str):
            if flag not in part_cache:
                part_cache[flag] = solve(cfg, PartitionedFacts(m.problem(f, cfg, entry), flag, _truthiness))
            return part_cache[flag]

        def bounded_at(node_ids: list[int], expr: ast.AST, bound: str) -> str:
            """expr <= bound at the entry of each of the nodes?  -> how ('' = no)"""
            hows = set()
            for (test, truth, e2) in _alts(expr):
                l = lin(e2)
                if l is None:
                    return ""
                term, off = T(l[0]), l[1]
                for nid in node_ids:
                    z = res.get(nid)
                    if z is None:
                        continue
                    if test is not None:
                        z = z.copy()
                        from ..facts import assume
                        assume(z, test, truth)
                        if z.inconsistent():
                            continue
                    if _le(z, term, off, bound):
                        hows.add("entailed by the facts under the entry contract")
                        continue
                    ok = False
                    for fl in flags:
                        pres = partitions(fl).get(nid)
                        if pres is None:
                            ok = True
                            break
                        good = True
                        for k, zz in pres.items():
                            if test is not None:
                                if isinstance(test, ast.Name) and test.id == fl and k != "?" and (k == "T") != truth:
                                    continue
                                zz = zz.copy()
                                from ..facts import assume
                                assume(zz, test, truth)
                                if zz.inconsistent():
                                    continue
                            if not _le(zz, term, off, bound):
                                good = False
                                break
                        if good:
                            hows.add(f"entailed in every partition of a case split on the flag `{fl}`")
                            ok = True
                            break
                    if not ok:
                        return ""
            return "; ".join(sorted(hows)) or "unreachable"

        exempt_nodes: list = []
        # ---- O1: every store to the cursor is within lineMax;  O3: every store to lineMax shrinks or restores
        for n in cfg.nodes:
            if n.kind != "stmt" or not isinstance(n.ast, (ast.Assign, ast.AugAssign)) or res.get(n.id) is None:
                continue
            a = n.ast
            targets = a.targets if isinstance(a, ast.Assign) else [a.target]
            tt = [U(t) for t in targets]
            if kline in tt:
                n_sites += 1
                value = a.value if isinstance(a, ast.Assign) else ast.BinOp(left=a.target, op=a.op, right=a.value)
                key = f"{f.short}|store line|{alpha(f, a)[:70]}"
                how = ""
                if isinstance(value, ast.Call):
                    rb = m.result_bounds(value, res[n.id])
                    if any(b == kmax and k <= 0 for (b, k) in rb):
                        how = "the callee returns a value <= lineMax when given one (derived helper summary, argument bound entailed)"
                    elif isinstance(value.func, ast.Name) and value.func.id == "min":
                        for arg in value.args:
                            if bounded_at([n.id], arg, kmax):
                                how = "min(...) with an argument that is within lineMax"
                if not how:
                    how = bounded_at([n.id], value, kmax)
                if how:
                    r.add(key, c.where(f, a), f.short, U(a), "discharged", f"{U(value)} <= {kmax}: {how}")
                elif (f.short, "count") in LINECAP_EXEMPT and (_count_form(f, value, start) or _count_form(f, _single_def(f, value), start)):
                    r.add(key, c.where(f, a), f.short, U(a), "exempt", LINECAP_EXEMPT[(f.short, "count")])
                    exempt_nodes.append(n)
                else:
                    r.add(key, c.where(f, a), f.short, U(a), "violation",
                          f"the cursor may be moved past the end of the region: `{U(value)} <= {kmax}` is not entailed on some path "
                          f"({contract}); a map end taken from it would exceed the number of lines")
            if kmax in tt:
                n_sites += 1
                value = a.value if isinstance(a, ast.Assign) else ast.BinOp(left=a.target, op=a.op, right=a.value)
                key = f"{f.short}|store lineMax|{alpha(f, a)[:70]}"
                how = bounded_at([n.id], value, kmax)
                if not how:
                    from ..valnum import analyse as vn_analyse, VN, entry as vn_entry
                    vcfg, vres, vn = vn_analyse(c, f)
                    for vnode in vcfg.owner(a):
                        env = vres.get(vnode.id)
                        if env is not None and vn.val(value, env, vnode.id) == vn_entry(kmax):
                            how = "restores the value lineMax had on entry"
                if how:
                    r.add(key, c.where(f, a), f.short, U(a), "discharged", f"{U(value)} <= {kmax} or restore: {how}")
                else:
                    r.add(key, c.where(f, a), f.short, U(a), "violation",
                          f"lineMax is set to a value that is neither within the current lineMax nor its entry value")
        # ---- O2: post at every return
        for n in cfg.nodes:
            if n.kind == "stmt" and isinstance(n.ast, ast.Return) and res.get(n.id) is not None:
                n_sites += 1
                key = f"{f.short}|return|{n.ast.lineno - f.node.lineno}"
                how = bounded_at([n.id], ast.parse(kline, mode="eval").body, kmax)
                if how:
                    r.add(f"{f.short}|return|{alpha(f, n.ast)[:40]}", c.where(f, n.ast), f.short, U(n.ast), "discharged",
                          f"{kline} <= {kmax} at this return: {how}")
                else:
                    # the cursor was stored by an exempt statement on this path?
                    ex = bool(exempt_nodes) and n.id in cfg.reachable_from(exempt_nodes)
                    r.add(f"{f.short}|return|{alpha(f, n.ast)[:40]}", c.where(f, n.ast), f.short, U(n.ast), "exempt" if ex else "violation",
                          LINECAP_EXEMPT[(f.short, "count")] if ex else
                          f"{kline} <= {kmax} is not entailed at this return (post-condition of the block contract)")
        # ---- O4: a rule that reports no match has not moved the cursor (used on the failing edge of a dispatch)
        if f in m.rules:
            from ..valnum import analyse as vn_analyse, VN, entry as vn_entry
            vcfg, vres, vn = vn_analyse(c, f, lambda cs, call, env, nid: (m.member_call(call) is not None and _is_silent_dispatch(call)) or (
                cs is not None and bool(cs.callees) and cs.kind in ("direct", "method") and all(m.silent_pure(h) for h in cs.callees)))
            for vnode in vcfg.nodes:
                if vnode.kind == "stmt" and isinstance(vnode.ast, ast.Return) and vres.get(vnode.id) is not None:
                    v = vnode.ast.value
                    if isinstance(v, ast.Constant) and v.value is True:
                        continue
                    n_sites += 1
                    same = VN.get(vres[vnode.id], kline) == vn_entry(kline)
                    maybe_true = not (isinstance(v, ast.Constant) and not v.value)
                    if same:
                        r.add(f"{f.short}|no-match|{alpha(f, vnode.ast)[:40]}|{vnode.ast.lineno - f.node.lineno}", c.where(f, vnode.ast), f.short,
                              U(vnode.ast), "discharged", f"{kline} holds its entry value where the rule reports no match")
                    elif maybe_true:
                        # `return <expr>`: may report a match, in which case the post-condition (O2) applies
                        r.add(f"{f.short}|no-match|{alpha(f, vnode.ast)[:40]}|{vnode.ast.lineno - f.node.lineno}", c.where(f, vnode.ast), f.short,
                              U(vnode.ast), "discharged", "a non-constant result: judged as a match by the post-condition at this return")
                    else:
                        r.add(f"{f.short}|no-match|{alpha(f, vnode.ast)[:40]}", c.where(f, vnode.ast), f.short, U(vnode.ast), "violation",
                              f"the rule reports no match but {kline} may have moved: the dispatcher would hand the next rule a cursor "
                              f"the contract was not established for")
        if f not in m.rules:
            # falling off the end of the dispatcher (or of a helper) is a return too
            n_sites += 1
            ex_preds = [p for (p, _) in cfg.exit.pred if res.get(p.id) is not None and not (p.kind == "stmt" and isinstance(p.ast, (ast.Return, ast.Raise)))]
            bad = False
            for p in ex_preds:
                zs = [base.edge(p, res[p.id], lab, cfg.exit) for (s_, lab) in p.succ if s_ is cfg.exit and lab != "exc"]
                for z in zs:
                    if z is not None and not _le(z, kline, 0, kmax):
                        # retry by partition
                        bad = True
            r.add(f"{f.short}|falls off", c.where(f, f.node), f.short, f"end of {f.short}", "violation" if bad else "discharged",
                  f"{kline} <= {kmax} may fail when the dispatch loop ends" if bad else f"{kline} <= {kmax} when the dispatch loop ends")
        # ---- pre at every member call made by f
        for call in [x for x in own_nodes(f.node) if isinstance(x, ast.Call)]:
            mc = m.member_call(call)
            if mc is None or _is_silent_dispatch(call):
                continue
            n_sites += 1
            s2, a_start, a_end = mc
            ids = [x.id for x in cfg.owner(call) if res.get(x.id) is not None]
            cs = c.cg.site_of.get(call)
            need_lt = any(g is not m.tok for g in cs.callees)
            checks = [("end <= lineMax", bounded_at(ids, a_end, f"{s2}.lineMax")),
                      ("state.line <= start", bounded_at(ids, ast.parse(f"{s2}.line", mode="eval").body, U(a_start)) if lin(a_start) and lin(a_start)[1] == 0 and lin(a_start)[0]
                       else ("same expression" if U(a_start) == f"{s2}.line" else ""))]
            else_le = not need_lt
            if else_le:
                checks.append(("start <= end", bounded_at(ids, a_start, U(a_end)) if lin(a_end) and lin(a_end)[1] == 0 and lin(a_end)[0] else ""))
            if need_lt:
                checks.append(("start < end", bounded_at(ids, ast.BinOp(left=a_start, op=ast.Add(), right=ast.Constant(value=1)), U(a_end))
                               if lin(a_end) and lin(a_end)[1] == 0 and lin(a_end)[0] else ""))
            failed = [nm for (nm, how) in checks if not how]
            key = f"{f.short}|call|{alpha(f, call)[:70]}"
            if failed:
                r.add(key, c.where(f, call), f.short, U(call)[:80], "violation",
                      f"the block contract is not established at this call: {', '.join(failed)} not entailed")
            else:
                r.add(key, c.where(f, call), f.short, U(call)[:80], "discharged",
                      "block contract established: " + "; ".join(f"{nm} ({how})" for (nm, how) in checks))

    for f in m.rules + [m.tok]:
        st, start, end = _params(f, m.tok)
        check_function(f, st, start, end, _entry(f, m.tok))
    # derived members, under the join of the facts at their call sites (parameters renamed)
    for g in sorted(m.derived, key=lambda x: x.qual):
        sites = site_facts.get(g, [])
        entry: Facts | None = None
        for (caller, call, z) in sites:
            cs = c.cg.site_of.get(call)
            pairs: list[tuple[str, str]] = [(ZERO, ZERO)]
            for pn in [a.arg for a in g.node.args.args]:
                arg = c.eff.arg_for_param(cs, g, pn)
                if arg is None:
                    continue
                l = lin(arg)
                if pn == m.derived[g]:
                    pairs.append((f"{pn}.line", f"{U(arg)}.line"))
                    pairs.append((f"{pn}.lineMax", f"{U(arg)}.lineMax"))
                elif l is not None and l[0] is not None and l[1] == 0:
                    pairs.append((pn, l[0]))
            z.close()
            e1 = Facts()
            for (ca, xa) in pairs:
                for (cb, xb) in pairs:
                    if ca != cb and (xa, xb) in z.d:
                        e1.add(ca, cb, z.d[(xa, xb)])
            entry = e1 if entry is None else entry.join(e1)
        if entry is None:
            r.add(f"{g.short}|helper", c.where(g, g.node), g.short, g.short, "violation",
                  "a helper stores the block cursor but no analysed call site establishes what it may assume")
            continue
        check_function(g, m.derived[g], None, None, entry)
    # ---- the root call(s): every other caller of the dispatcher
    for cs in c.cg.callers.get(m.tok, []):
        if cs.caller in m.members or cs.caller in m.derived:
            continue
        n_sites += 1
        call = cs.node
        f = cs.caller
        ok = len(call.args) >= 3 and U(call.args[1]) == f"{U(call.args[0])}.line" and U(call.args[2]) == f"{U(call.args[0])}.lineMax"
        # start <= end at the root: the constructor leaves line = 0 and lineMax = (number of table rows) - 1 >= 0
        ctor = c.p.func("rules_block/state_block.py:StateBlock.__init__")
        me = ctor.node.args.args[0].arg
        zero = [n for n in own_nodes(ctor.node) if isinstance(n, ast.Assign) and U(n.targets[0]) == f"{me}.line"]
        ok = ok and len(zero) == 1 and isinstance(zero[0].value, ast.Constant) and zero[0].value.value == 0
        r.add(f"{f.short}|root call|{alpha(f, call)[:70]}", c.where(f, call), f.short, U(call)[:80], "discharged" if ok else "violation",
              "root call passes (state, state.line, state.lineMax) of a fresh state whose constructor sets line = 0: the contract "
              "holds trivially (lineMax = number of sentinel-terminated table rows - 1 >= 0, rule SENT)" if ok else
              "a caller outside the block rules does not pass (state.line, state.lineMax) of a fresh state")
    r.floor = 40
    return r
