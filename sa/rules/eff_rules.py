"""EFF (write effects by object type), ALIAS (mutable defaults, class-level mutables, preset taint, fresh
configuration objects), AMBIENT (no ambient inputs), RWRITE (renderer writes to stream tokens)."""
from __future__ import annotations

import ast

from ..core import AnchorError, Func, U, own_nodes
from ..ctx import Ctx
from ..effects import Effect, access_path
from ..report import RuleResult, alpha

ALLOWED = ("percall", "local", "env", "scalar")

# reviewed: the only write to shared state in the parse phase - the lazily compiled chain cache, a pure function of
# the rule list, published safely (rule PUB)
def _is_cache_effect(e: Effect) -> bool:
    if e.func.cls != "Ruler" or e.func.name != "__compile__":
        return False
    if e.kind == "attr-store" and e.field == "__cache__" and U(e.obj) == "self":
        return True
    return any(isinstance(p, ast.Attribute) and p.attr == "__cache__" for p in access_path(e.obj))


def _phase(c: Ctx, which: str) -> set[Func]:
    if which == "parse":
        return c.cg.parse_phase()
    if which == "render":
        return c.cg.render_phase()
    return c.cg.api_phase()


def rule_eff(c: Ctx, which: str = "api") -> RuleResult:
    r = RuleResult("EFF", f"every write effect of the {which} phase lands on a per-call object (state, token, delimiter, "
                          "fresh local container, caller's env); shared objects are only read")
    phase = _phase(c, which)
    floor_funcs = ["parser_block.py:ParserBlock.tokenize", "parser_inline.py:ParserInline.tokenize",
                   "parser_inline.py:ParserInline.skipToken", "rules_block/state_block.py:StateBlock.push",
                   "rules_inline/state_inline.py:StateInline.push", "renderer.py:RendererHTML.renderToken",
                   "ruler.py:Ruler.getRules", "ruler.py:Ruler.__compile__"]
    for q in floor_funcs:
        if c.p.func(q) not in phase:
            raise AnchorError(f"{q} is not reachable from the API entry points in the computed call graph")
    for reg in c.reg.all_rule_funcs():
        if reg.func not in phase:
            raise AnchorError(f"registered rule {reg.func.qual} is not reachable from the API entry points")
    for f in sorted(phase, key=lambda f: f.qual):
        r.functions += 1
        for e in c.eff.by_func[f]:
            key = f"{f.short}|{alpha(f, e.stmt)[:120]}|{e.text}"
            if e.category in ALLOWED:
                r.add(key, c.where(f, e.stmt), f.short, e.text, "discharged", f"object written is {e.category} ({e.detail})")
            elif e.detail == "global statement" and _lazy_const_global(f, e.field):
                r.add(key, c.where(f, e.stmt), f.short, e.text, "discharged",
                      "hand-written memo of a parameterless pure function of module constants (the same thing @functools.cache does): "
                      "assigned only under `is None`, idempotent")
            elif _is_cache_effect(e):
                r.add(key, c.where(f, e.stmt), f.short, e.text, "exempt",
                      "reviewed: lazily compiled chain cache - idempotent, a pure function of the rule list; its publication "
                      "discipline is rule PUB, its invalidation rule CACHE")
            elif f.name in ("__init__", "__post_init__") and U(access_path(e.obj)[-1]) == "self":
                r.add(key, c.where(f, e.stmt), f.short, e.text, "discharged",
                      "constructor initialising the object it is creating (a fresh object: per-call when constructed in the phase)")
            else:
                r.add(key, c.where(f, e.stmt), f.short, e.text, "violation",
                      f"writes an object classified {e.category} ({e.detail}) during parse/render: hidden state shared between "
                      f"calls, threads or instances", {"category": e.category})
    # memoisation decorators
    for f in sorted(phase, key=lambda f: f.qual):
        for d in f.decorators:
            if d.split("(")[0].split(".")[-1] in ("cache", "lru_cache", "cached_property"):
                nparams = len(f.node.args.args) + len(f.node.args.kwonlyargs)
                reads_state = any(isinstance(n, ast.Attribute) and isinstance(n.value, ast.Name) and n.value.id in ("self", "state")
                                  for n in own_nodes(f.node))
                ok = nparams == 0 and not reads_state
                r.add(f"{f.short}|memo", c.where(f, f.node), f.short, "@" + d, "discharged" if ok else "violation",
                      "memoises a parameterless pure function of module constants" if ok else
                      "memoisation keyed on arguments / state keeps per-call data alive across calls")
    # constructors of shared classes must not run inside the phase
    for f in sorted(phase, key=lambda f: f.qual):
        if f.name == "__init__" and f.cls in ("MarkdownIt", "ParserCore", "ParserBlock", "ParserInline", "Ruler", "RendererHTML", "OptionsDict"):
            r.add(f"{f.short}|ctor-in-phase", c.where(f, f.node), f.short, f"{f.cls}(...) during {which}", "violation",
                  "a configuration object is (re)built during parse/render")
    r.floor = 250 if which == "api" else 20
    return r


def _lazy_const_global(f: Func, name: str) -> bool:
    """`name` is a module-level memo of the parameterless function f: initialised to None at module level, declared `global`
    only in f, stored only in f, each store a plain `name = <expr>` in the body of `if name is None:` (or the else of `is not
    None`), the value reading no parameter, no `self` / `state`."""
    if f.node.args.args or f.node.args.kwonlyargs or f.node.args.vararg or f.node.args.kwarg or f.cls is not None:
        return False
    d = f.module.defs.get(name)
    v = getattr(d, "value", None)
    if not (isinstance(d, (ast.Assign, ast.AnnAssign)) and isinstance(v, ast.Constant) and v.value is None):
        return False
    for g in ast.walk(f.module.tree):
        if isinstance(g, (ast.FunctionDef, ast.AsyncFunctionDef)) and g is not f.node and any(
                isinstance(x, ast.Global) and name in x.names for x in ast.walk(g)):
            return False
    stores = [x for x in own_nodes(f.node) if isinstance(x, ast.Name) and x.id == name and isinstance(x.ctx, (ast.Store, ast.Del))]
    if not stores:
        return False
    for x in stores:
        a = f.module.parents.get(x)
        g = f.module.parents.get(a)
        if not (isinstance(a, ast.Assign) and len(a.targets) == 1 and a.targets[0] is x and isinstance(g, ast.If)):
            return False
        t = g.test
        ok_branch = (U(t) == f"{name} is None" and a in g.body) or (U(t) == f"{name} is not None" and a in g.orelse)
        if not ok_branch:
            return False
        if any(isinstance(y, ast.Attribute) and isinstance(y.value, ast.Name) and y.value.id in ("self", "state") for y in ast.walk(a.value)):
            return False
    return True


def rule_eff_config(c: Ctx) -> RuleResult:
    """The construction / configuration phase (constructors of the configuration classes, MarkdownIt's configuration methods and what
    they reach) may write the instance it configures, but nothing at module or class level: such an object is shared by every
    instance, so configuring or merely creating one instance would change another."""
    r = RuleResult("EFFCFG", "construction and configuration of an instance write only that instance: no write effect of the configuration "
                             "phase lands on a module-level or class-level object")
    mi = c.p.cls("MarkdownIt")
    api = {"parse", "render", "parseInline", "renderInline"}
    roots = [f for n, f in mi.methods.items() if n not in api]
    for cn in ("ParserCore", "ParserBlock", "ParserInline", "Ruler", "RendererHTML", "OptionsDict", "StateBlock", "StateInline", "StateCore", "Token"):
        ci = c.p.classes.get(cn)
        if ci is not None and "__init__" in ci.methods:
            roots.append(ci.methods["__init__"])
    if len(roots) < 15:
        raise AnchorError(f"only {len(roots)} configuration entry points found")
    phase = c.cg.reachable(roots)
    for f in sorted(phase, key=lambda f: f.qual):
        r.functions += 1
        for e in c.eff.by_func.get(f, []):
            if e.category.startswith("global"):
                r.add(f"{f.short}|{alpha(f, e.stmt)[:100]}|{e.text}", c.where(f, e.stmt), f.short, e.text, "violation",
                      f"writes the module-level object {e.category.split(':', 1)[-1]} ({e.detail}) while an instance is created or configured: "
                      f"the object is shared by every instance, so what one instance does (or merely its existence) shows in another")
            else:
                r.add(f"{f.short}|{alpha(f, e.stmt)[:100]}|{e.text}", c.where(f, e.stmt), f.short, e.text, "discharged",
                      f"object written is {e.category} - not module- or class-level")
    r.floor = 60
    return r


def rule_eff_instance(c: Ctx) -> RuleResult:
    """EFF restricted to what two concurrent calls could both touch: same as EFF (used by C13/C14 with their own text)."""
    return rule_eff(c, "api")


MUTABLE_LITERALS = (ast.List, ast.Dict, ast.Set, ast.ListComp, ast.DictComp, ast.SetComp)


def _mutable_expr(e: ast.AST) -> bool:
    if isinstance(e, MUTABLE_LITERALS):
        return True
    if isinstance(e, ast.Call) and isinstance(e.func, ast.Name) and e.func.id in ("list", "dict", "set", "defaultdict", "OrderedDict", "deque", "bytearray"):
        return True
    return False


def rule_alias(c: Ctx) -> RuleResult:
    r = RuleResult("ALIAS", "no mutable default argument / class-level mutable; preset objects never reach an instance uncopied; "
                            "configuration objects are built per instance")
    p = c.p
    # (i) mutable defaults, library-wide
    for f in sorted(p.all_funcs(), key=lambda f: f.qual):
        a = f.node.args
        for d in list(a.defaults) + [k for k in a.kw_defaults if k is not None]:
            if isinstance(d, ast.Constant) or isinstance(d, (ast.Name, ast.Attribute, ast.UnaryOp, ast.Tuple)) and not _mutable_expr(d):
                verdict, how = "discharged", "immutable / named default"
                if isinstance(d, (ast.Name, ast.Attribute)):
                    # a default that names a module-level mutable container is shared as well
                    rr = p.resolve(f.module, d)
                    if isinstance(rr, tuple) and rr and rr[0] == "const" and _mutable_expr(getattr(rr[3], "value", None) or ast.Constant(value=0)):
                        verdict, how = "violation", "default names a module-level mutable container shared by all calls"
                r.add(f"{f.short}|default|{U(d)}", c.where(f, d), f.short, f"default {U(d)}", verdict, how)
            elif _mutable_expr(d):
                r.add(f"{f.short}|default|{U(d)}", c.where(f, d), f.short, f"default {U(d)}", "violation",
                      "mutable default argument: one object shared by every call that omits the argument")
            else:
                r.add(f"{f.short}|default|{U(d)}", c.where(f, d), f.short, f"default {U(d)}", "discharged", "call / other expression evaluated once; not a container literal")
    r.functions = len(p.funcs)
    # class-level mutable attributes
    for ci in sorted(p.classes.values(), key=lambda ci: ci.name):
        is_dc = any("dataclass" in U(d) for d in ci.node.decorator_list)
        typed_dict = any(b in ("TypedDict", "Protocol", "NamedTuple") for b in ci.bases)
        for b in ci.node.body:
            val = None
            name = None
            if isinstance(b, ast.Assign) and len(b.targets) == 1 and isinstance(b.targets[0], ast.Name):
                name, val = b.targets[0].id, b.value
            elif isinstance(b, ast.AnnAssign) and isinstance(b.target, ast.Name):
                name, val = b.target.id, b.value
            if name is None or typed_dict:
                continue
            if name.startswith("__") and name.endswith("__") and name in ("__slots__", "__all__", "__match_args__"):
                continue
            if val is None:
                r.add(f"{ci.name}.{name}|classattr", f"markdown_it/{ci.module.rel}:{b.lineno}", ci.name, name, "discharged",
                      "annotation only (per-instance field)")
                continue
            if _mutable_expr(val):
                r.add(f"{ci.name}.{name}|classattr", f"markdown_it/{ci.module.rel}:{b.lineno}", ci.name, f"{name} = {U(val)[:40]}",
                      "violation", "class-level mutable container is shared by all instances")
            elif is_dc and isinstance(val, ast.Call) and U(val.func).split(".")[-1] == "field":
                kw = {k.arg: k.value for k in val.keywords}
                bad = "default" in kw and _mutable_expr(kw["default"])
                r.add(f"{ci.name}.{name}|classattr", f"markdown_it/{ci.module.rel}:{b.lineno}", ci.name, f"{name} = {U(val)[:40]}",
                      "violation" if bad else "discharged",
                      "dataclass field with a shared mutable default" if bad else "dataclass field (default_factory builds a fresh object per instance)")
            else:
                r.add(f"{ci.name}.{name}|classattr", f"markdown_it/{ci.module.rel}:{b.lineno}", ci.name, f"{name} = {U(val)[:40]}",
                      "discharged", "immutable class-level value")
    # (i-b) no module-level mutable container (or an element of one) is stored into a per-call object: tokens / states of
    #       different parses would alias one shared object; and no store to class-level state from any method
    def shared_mutable(f: Func, v: ast.AST) -> str:
        base = v
        how = "the container itself"
        if isinstance(v, ast.Subscript) and not isinstance(v.slice, ast.Slice):
            base, how = v.value, "an element of"
        elif isinstance(v, ast.Call) and isinstance(v.func, ast.Attribute) and v.func.attr in ("get", "setdefault", "pop") and not isinstance(v.func.value, ast.Call):
            base, how = v.func.value, "an element of"
        if not isinstance(base, ast.Name) or c.tf.scope(f).is_local(base.id):
            return ""
        rr = p.resolve_name(f.module, base.id)
        if not (isinstance(rr, tuple) and rr and rr[0] == "const"):
            return ""
        d = getattr(rr[3], "value", None)
        if d is None:
            return ""
        if how == "the container itself":
            return f"module-level mutable `{base.id}`" if _mutable_expr(d) or isinstance(d, (ast.DictComp, ast.ListComp, ast.SetComp)) else ""
        elems: list[ast.AST] = []
        if isinstance(d, ast.Dict):
            elems = list(d.values)
        elif isinstance(d, (ast.List, ast.Tuple, ast.Set)):
            elems = list(d.elts)
        elif isinstance(d, ast.DictComp):
            elems = [d.value]
        elif isinstance(d, (ast.ListComp, ast.SetComp)):
            elems = [d.elt]
        if any(_mutable_expr(e) or isinstance(e, (ast.DictComp, ast.ListComp, ast.SetComp)) for e in elems):
            return f"an element (itself a mutable container) of module-level `{base.id}`"
        return ""

    nstore = 0
    for f in sorted(c.cg.api_phase(), key=lambda f: f.qual):
        sc = c.tf.scope(f)
        for n in own_nodes(f.node):
            if not isinstance(n, (ast.Assign, ast.AnnAssign)) or getattr(n, "value", None) is None:
                continue
            tg = n.targets if isinstance(n, ast.Assign) else [n.target]
            for t in tg:
                if isinstance(t, ast.Attribute) and isinstance(sc.type(t.value), str) and sc.type(t.value).split("@")[0] in (
                        "Token", "StateBlock", "StateInline", "StateCore", "Delimiter"):
                    nstore += 1
                    why = shared_mutable(f, n.value)
                    if why:
                        r.add(f"{f.short}|share-in|{alpha(f, n)[:60]}", c.where(f, n), f.short, U(n)[:70], "violation",
                              f"{why} is stored into a per-call object without a copy: tokens of different documents / parses alias one "
                              f"object, so mutating one token's `{t.attr}` changes the others")
    r.notes.append(f"{nstore} stores into per-call objects examined for aliasing of module-level containers")
    for f in sorted(p.all_funcs(), key=lambda f: f.qual):
        for n in own_nodes(f.node):
            tg = n.targets if isinstance(n, ast.Assign) else ([n.target] if isinstance(n, (ast.AugAssign, ast.AnnAssign)) else [])
            for t in tg:
                if isinstance(t, ast.Attribute):
                    b = t.value
                    is_cls = (isinstance(b, ast.Name) and b.id == "cls") or U(b) in ("self.__class__", "type(self)") or \
                        (isinstance(b, ast.Name) and not c.tf.scope(f).is_local(b.id) and isinstance(p.resolve_name(f.module, b.id), type(p.classes.get("Token"))))
                    if is_cls:
                        r.add(f"{f.short}|class-store|{alpha(f, t)}", c.where(f, n), f.short, U(n)[:70], "violation",
                              "a method stores into class-level state: every instance (and every subclass resolved through the MRO) "
                              "shares it, so behaviour depends on which instances were created before")
    # (ii) configuration objects are created per instance by constructor calls / fresh containers
    want = [("MarkdownIt", "inline"), ("MarkdownIt", "block"), ("MarkdownIt", "core"), ("MarkdownIt", "renderer"),
            ("MarkdownIt", "options"), ("ParserCore", "ruler"), ("ParserBlock", "ruler"), ("ParserInline", "ruler"),
            ("ParserInline", "ruler2"), ("RendererHTML", "rules"), ("Ruler", "__rules__"), ("OptionsDict", "_options")]
    for (cn, attr) in want:
        srcs = c.tf.attr_sources.get((cn, attr))
        ci = p.cls(cn)
        if not srcs:
            # the attribute became a property: judge the backing attribute(s) its accessor functions store
            backing = {t.attr for fn in ast.walk(ci.node) if isinstance(fn, ast.FunctionDef) and fn.name == attr
                       for n in ast.walk(fn) if isinstance(n, (ast.Assign, ast.AnnAssign))
                       for t in (n.targets if isinstance(n, ast.Assign) else [n.target])
                       if isinstance(t, ast.Attribute) and isinstance(t.value, ast.Name) and t.value.id == "self"}
            srcs = [v for b in sorted(backing) for v in c.tf.attr_sources.get((cn, b), [])]
        if not srcs:
            raise AnchorError(f"no assignment to {cn}.{attr} found")
        for v in srcs:
            f = p.enclosing_func(ci.module, v)
            fresh = f is not None and c.eff.fresh_expr(f, v)
            # cast(T, dict(x)) / renderer_cls(self)
            if not fresh and isinstance(v, ast.Call) and isinstance(v.func, ast.Name) and v.func.id == "cast" and len(v.args) == 2 and f is not None:
                fresh = c.eff.fresh_expr(f, v.args[1])
            if not fresh and isinstance(v, ast.Call) and isinstance(v.func, ast.Name) and f is not None:
                t = c.tf.scope(f).lookup(v.func.id)
                if isinstance(t, tuple) and t and t[0] == "callable":
                    fresh = True       # factory parameter (renderer_cls): called per instance
            r.add(f"{cn}.{attr}|source|{U(v)[:60]}", f"markdown_it/{ci.module.rel}:{v.lineno}", f"{cn}", f"self.{attr} = {U(v)[:60]}",
                  "discharged" if fresh else "violation",
                  "a fresh object per instance (constructor call / copy / literal)" if fresh else
                  "the configuration object is taken from shared scope without a copy: configuring one instance changes others")
    # (iii) preset taint in MarkdownIt.configure: values read from _PRESETS are only read, copied, or passed to callees
    #       that neither mutate nor retain them
    cfgf = p.func("main.py:MarkdownIt.configure")
    # The taint is followed through the helpers of the same module: a helper that returns a preset value taints the result
    # of its calls, a helper that receives one has that parameter tainted.
    mod_funcs = [g for g in p.all_funcs() if g.module is cfgf.module]
    taint: dict[Func, set[str]] = {g: set() for g in mod_funcs}
    ret_tainted: set[Func] = set()

    def callees_in_module(g: Func, call: ast.Call) -> list[Func]:
        cs = c.cg.site_of.get(call)
        return [h for h in (cs.callees if cs else ()) if h in taint]

    def is_tainted_expr(g: Func, e: ast.AST) -> bool:
        tainted = taint[g]
        if isinstance(e, ast.Name):
            return e.id in tainted or e.id == "_PRESETS"
        if isinstance(e, (ast.Subscript, ast.Attribute)):
            return is_tainted_expr(g, e.value)
        if isinstance(e, ast.Call) and isinstance(e.func, ast.Attribute) and e.func.attr in ("get", "items", "values", "setdefault", "pop"):
            return is_tainted_expr(g, e.func.value)
        if isinstance(e, ast.Call) and any(h in ret_tainted for h in callees_in_module(g, e)):
            return True
        if isinstance(e, ast.Call) and isinstance(e.func, ast.Name) and e.func.id == "cast" and len(e.args) == 2:
            return is_tainted_expr(g, e.args[1])
        if isinstance(e, ast.BoolOp):
            return any(is_tainted_expr(g, v) for v in e.values)
        if isinstance(e, ast.IfExp):
            return is_tainted_expr(g, e.body) or is_tainted_expr(g, e.orelse)
        if isinstance(e, ast.NamedExpr):
            return is_tainted_expr(g, e.value)
        return False
    changed = True
    while changed:
        changed = False
        for g in mod_funcs:
            for n in own_nodes(g.node):
                tg, val = None, None
                if isinstance(n, ast.Assign):
                    tg, val = n.targets, n.value
                elif isinstance(n, ast.AnnAssign) and n.value is not None:
                    tg, val = [n.target], n.value
                elif isinstance(n, ast.For):
                    tg, val = [n.target], n.iter
                elif isinstance(n, ast.NamedExpr):
                    tg, val = [n.target], n.value
                elif isinstance(n, ast.Return) and n.value is not None:
                    if g not in ret_tainted and is_tainted_expr(g, n.value):
                        ret_tainted.add(g)
                        changed = True
                elif isinstance(n, ast.Call):
                    cs = c.cg.site_of.get(n)
                    for h in callees_in_module(g, n):
                        for pn in [x.arg for x in h.node.args.args + h.node.args.kwonlyargs]:
                            a_ = c.eff.arg_for_param(cs, h, pn)
                            if a_ is not None and pn not in taint[h] and is_tainted_expr(g, a_):
                                taint[h].add(pn)
                                changed = True
                if tg is None:
                    continue
                if is_tainted_expr(g, val):
                    for t in tg:
                        if isinstance(t, (ast.Name, ast.Tuple, ast.List)):
                            for x in ast.walk(t):
                                if isinstance(x, ast.Name) and x.id not in taint[g]:
                                    taint[g].add(x.id)
                                    changed = True
    if not any(isinstance(x, ast.Name) and x.id == "_PRESETS" for g in mod_funcs for x in own_nodes(g.node)) or not (
            taint[cfgf] or any(isinstance(x, ast.Name) and x.id == "_PRESETS" for x in own_nodes(cfgf.node))):
        raise AnchorError("MarkdownIt.configure no longer reads _PRESETS (neither directly nor through a helper of its module)")
    for g in mod_funcs:
        if not taint[g] and not any(isinstance(x, ast.Name) and x.id == "_PRESETS" for x in own_nodes(g.node)):
            continue
        tainted = taint[g]
        tag = "configure" if g is cfgf else g.short
        # a) no effect on a tainted root
        for e in c.eff.by_func[g]:
            root = access_path(e.obj)[-1]
            if isinstance(root, ast.Name) and (root.id in tainted or root.id == "_PRESETS"):
                r.add(f"{tag}|taint-write|{e.text}", c.where(g, e.stmt), g.short, e.text, "violation",
                      "mutates an object that aliases the shared preset dictionary")
        # b) tainted values passed to callees / stored
        for n in own_nodes(g.node):
            if isinstance(n, ast.Call):
                cs = c.cg.site_of.get(n)
                for i, a in enumerate(list(n.args) + [k.value for k in n.keywords]):
                    if not is_tainted_expr(g, a):
                        continue
                    verdict, how = "discharged", ""
                    callees_ = list(cs.callees) if cs is not None else []
                    if not callees_ and isinstance(n.func, ast.Attribute) and isinstance(n.func.value, ast.Call) and U(n.func.value.func) == "getattr":
                        # getattr(obj, <name>).method(...): the method name identifies the callee when only one class defines it
                        cands_ = [m_ for ci_ in p.classes.values() for nm_, m_ in ci_.methods.items() if nm_ == n.func.attr]
                        if len(cands_) == 1:
                            callees_ = cands_
                    if not callees_:
                        if isinstance(n.func, ast.Name) and n.func.id in ("isinstance", "dict", "list", "len", "bool", "set", "tuple", "sorted", "cast"):
                            how = "builtin that reads / copies"
                        elif isinstance(n.func, ast.Attribute) and n.func.attr in ("get", "items", "keys", "values") :
                            how = "read access"
                        else:
                            verdict, how = "violation", "preset value flows into an unresolved callee"
                    else:
                        for h in callees_:
                            params = [x.arg for x in h.node.args.args]
                            pname = None
                            for pn in params:
                                if cs is not None and cs.callees and c.eff.arg_for_param(cs, h, pn) is a:
                                    pname = pn
                            if pname is None and not (cs is not None and cs.callees):
                                # positional mapping onto the bound method's parameters
                                idx_ = (list(n.args) + [k.value for k in n.keywords]).index(a)
                                if idx_ < len(n.args) and idx_ + 1 < len(params):
                                    pname = params[idx_ + 1]
                            if pname is None:
                                verdict, how = "violation", f"cannot map the argument onto a parameter of {h.short}"
                                break
                            if h in taint:
                                how = f"{h.short} is a helper of the same module: its parameter {pname} is followed as a preset alias"
                                continue
                            if any(w[0] == pname for w in c.eff.writes.get(h, ())):
                                verdict, how = "violation", f"{h.short} mutates its parameter {pname}, which aliases the shared preset"
                                break
                            esc = _escapes(c, h, pname)
                            if esc:
                                verdict, how = "violation", f"{h.short} retains its parameter {pname} uncopied ({esc}); the instance would alias the shared preset"
                                break
                            how = f"{h.short} only reads / copies parameter {pname}"
                    r.add(f"{tag}|taint-arg|{alpha(g, n)[:80]}|{i}", c.where(g, n), g.short, U(n)[:70], verdict, how)
            if isinstance(n, ast.Assign):
                for t in n.targets:
                    if isinstance(t, (ast.Attribute, ast.Subscript)) and is_tainted_expr(g, n.value):
                        r.add(f"{tag}|taint-store|{U(t)}", c.where(g, n), g.short, U(n)[:70], "violation",
                              "stores an alias of the shared preset into the instance")
    # c) OptionsDict.__init__ copies its argument; make() of each preset returns a fresh object
    od = p.func("utils.py:OptionsDict.__init__")
    esc = _escapes(c, od, od.node.args.args[1].arg)
    r.add("OptionsDict.__init__|copy", c.where(od, od.node), od.short, "self._options = dict(options)",
          "violation" if esc else "discharged",
          f"keeps the caller's mapping without copying it ({esc})" if esc else "stores a copy of its argument")
    for name in ("commonmark", "default", "zero"):
        mk = p.func(f"presets/{name}.py:make")
        ok = c.eff.returns_fresh(mk)
        r.add(f"presets.{name}.make|fresh", c.where(mk, mk.node), mk.short, "return {...}", "discharged" if ok else "violation",
              "returns a freshly built literal" if ok else "returns an object that is not built fresh on every call")
    gm = p.func("presets/__init__.py:gfm_like.make")
    ok = c.eff.returns_fresh(gm) and all(e.category in ("local",) for e in c.eff.by_func[gm])
    r.add("presets.gfm_like.make|fresh", c.where(gm, gm.node), gm.short, "config = commonmark.make(); ...", "discharged" if ok else "violation",
          "mutates and returns only its own fresh copy" if ok else "mutates or returns a shared preset object")
    r.floor = 60
    return r


def _escapes(c: Ctx, g: Func, pname: str) -> str:
    """Does g store parameter `pname` (uncopied) into an attribute / container / return it?  -> description or ''."""
    aliases = {pname}
    for n in own_nodes(g.node):
        if isinstance(n, ast.Assign) and isinstance(n.value, ast.Name) and n.value.id in aliases:
            for t in n.targets:
                if isinstance(t, ast.Name):
                    aliases.add(t.id)
    for n in own_nodes(g.node):
        if isinstance(n, (ast.Assign, ast.AnnAssign)):
            v = n.value
            tg = n.targets if isinstance(n, ast.Assign) else [n.target]
            if v is None:
                continue
            for t in tg:
                if isinstance(t, (ast.Attribute, ast.Subscript)) and _aliases_value(v, aliases):
                    return f"line {n.lineno}: {U(n)[:50]}"
        if isinstance(n, ast.Return) and n.value is not None and _aliases_value(n.value, aliases):
            return f"line {n.lineno}: returned"
    return ""


def _aliases_value(v: ast.AST, aliases: set[str]) -> bool:
    """Is the value of v (possibly) the very object named by one of `aliases` (not a copy)?"""
    if isinstance(v, ast.Name):
        return v.id in aliases
    if isinstance(v, ast.BoolOp):
        return any(_aliases_value(x, aliases) for x in v.values)
    if isinstance(v, ast.IfExp):
        return _aliases_value(v.body, aliases) or _aliases_value(v.orelse, aliases)
    if isinstance(v, ast.Call) and isinstance(v.func, ast.Name) and v.func.id == "cast" and len(v.args) == 2:
        return _aliases_value(v.args[1], aliases)
    if isinstance(v, ast.NamedExpr):
        return _aliases_value(v.value, aliases)
    return False


AMBIENT_OK = {"__future__", "re", "typing", "dataclasses", "collections", "collections.abc", "logging", "functools", "mdurl",
              "codecs", "contextlib", "warnings", "inspect", "urllib.parse", "html", "string", "itertools", "enum", "abc", "sys",
              "typing_extensions", "linkify_it", "argparse", "pathlib", "textwrap"}
AMBIENT_BAD_NAMES = {"time", "random", "datetime", "os", "locale", "uuid", "secrets", "threading", "socket", "tempfile", "getpass",
                     "platform", "subprocess"}


def rule_ambient(c: Ctx) -> RuleResult:
    r = RuleResult("AMBIENT", "modules of the parse/render phase import nothing time-, randomness-, locale- or environment-dependent; "
                              "no module-level name read in the phase is ever rebound by a function")
    phase = c.cg.api_phase()
    mods = {f.module.rel: f.module for f in phase}
    for rel, m in sorted(mods.items()):
        for n in ast.walk(m.tree):
            names = []
            if isinstance(n, ast.Import):
                names = [a.name for a in n.names]
            elif isinstance(n, ast.ImportFrom) and n.level == 0 and n.module:
                names = [n.module]
            for nm in names:
                if nm.split(".")[0] == "markdown_it":
                    continue
                top = nm.split(".")[0]
                bad = top in AMBIENT_BAD_NAMES
                unknown = nm not in AMBIENT_OK and top not in AMBIENT_OK
                if bad or unknown:
                    # sys is allowed only for version checks in _compat / cli
                    r.add(f"{rel}|import|{nm}", f"markdown_it/{rel}:{n.lineno}", rel, f"import {nm}", "violation",
                          "ambient input available to the parse phase" if bad else "module not on the reviewed allow-list of pure dependencies")
                else:
                    r.add(f"{rel}|import|{nm}", f"markdown_it/{rel}:{n.lineno}", rel, f"import {nm}", "discharged", "on the allow-list of pure dependencies")
    # sys usage inside the phase must be limited to version_info
    for f in phase:
        for n in own_nodes(f.node):
            if isinstance(n, ast.Attribute) and isinstance(n.value, ast.Name) and n.value.id == "sys" and not c.tf.scope(f).is_local("sys"):
                ok = n.attr in ("version_info",)
                r.add(f"{f.short}|sys.{n.attr}", c.where(f, n), f.short, U(n), "discharged" if ok else "violation",
                      "interpreter version only" if ok else "reads process-level ambient state")
    # global rebinding anywhere in the library
    for f in c.p.all_funcs():
        for n in own_nodes(f.node):
            if isinstance(n, (ast.Global, ast.Nonlocal)) and isinstance(n, ast.Global):
                lazy = all(_lazy_const_global(f, nm_) for nm_ in n.names)
                r.add(f"{f.short}|global|{','.join(n.names)}", c.where(f, n), f.short, U(n), "discharged" if lazy else "violation",
                      "lazily initialised constant: assigned only under `is None`, in a parameterless function, from module constants" if lazy else
                      "rebinding a module-level name at run time makes results depend on call history")
    r.functions = len(phase)
    r.floor = 40
    return r


def _expand_arg(c: Ctx, f: Func, a: ast.AST, at: ast.AST) -> ast.AST:
    """A bare local name used as a call argument, replaced by its single call-free definition (description = token.children)."""
    from ..interproc import expand
    if not isinstance(a, ast.Name):
        return a
    try:
        return expand(c, f, a, at, depth=1)
    except Exception:          # noqa: BLE001
        return a


def rule_rwrite(c: Ctx) -> RuleResult:
    r = RuleResult("RWRITE", "the renderer's only write to a stream token is the idempotent image alt; scratch tokens do not alias stream attrs")
    rphase = c.cg.render_phase()
    tf = c.tf
    n_tok = 0
    for f in sorted(rphase, key=lambda f: f.qual):
        if f.module.rel not in ("renderer.py", "token.py"):
            continue
        sc = tf.scope(f)
        for e in c.eff.by_func[f]:
            # is the written object (or a container of it) a Token?
            toks = [pth for pth in access_path(e.obj) if sc.type(pth) == "Token"]
            if not toks or f.module.rel == "token.py":
                continue
            n_tok += 1
            root = access_path(e.obj)[-1]
            fresh = isinstance(root, ast.Name) and c.eff.fresh_local(f, root.id)
            r.add(f"{f.short}|{e.text}", c.where(f, e.stmt), f.short, e.text, "discharged" if fresh else "violation",
                  "token constructed locally by the renderer" if fresh else "direct store into a stream token during rendering")
        # method calls on tokens that write: attrSet / attrJoin / attrPush
        for cs in c.cg.sites.get(f, []):
            for g in cs.callees:
                if g.cls != "Token" or not c.eff.writes.get(g):
                    continue
                if g.name in ("__init__", "__post_init__"):
                    continue
                recv = cs.node.func.value if isinstance(cs.node.func, ast.Attribute) else None
                root = access_path(recv)[-1] if recv is not None else None
                fresh = isinstance(root, ast.Name) and (c.eff.fresh_local(f, root.id) or c.eff.fresh_at(f, root.id, cs.node))
                n_tok += 1
                key = f"{f.short}|{U(cs.node.func)}|{U(cs.node.args[0]) if cs.node.args else ''}"
                if fresh:
                    r.add(key, c.where(f, cs.node), f.short, U(cs.node)[:70], "discharged", "receiver is a token constructed locally by the renderer")
                    continue
                # the one reviewed stream write: image alt, a function of the token's own children
                is_alt = g.name == "attrSet" and cs.node.args and isinstance(cs.node.args[0], ast.Constant) and cs.node.args[0].value == "alt" \
                    and f.name == "image"
                if is_alt:
                    from ..interproc import expand
                    val = cs.node.args[1]
                    if isinstance(val, ast.Name):
                        # a local holding the alt text: inline its (single) definition - calls are kept as they are
                        pairs = [(n.value, n) for n in own_nodes(f.node)
                                 if isinstance(n, ast.Assign) and any(isinstance(t, ast.Name) and t.id == val.id for t in n.targets)]
                    else:
                        pairs = [(val, c.cfg(f).stmt_of(cs.node) if hasattr(c.cfg(f), "stmt_of") else cs.node)]
                    vals = [v_ for v_, _ in pairs]
                    at_of = {id(v_): a_ for v_, a_ in pairs}

                    def alt_ok(v: ast.AST, at: ast.AST | None = None) -> bool:
                        at = at_of.get(id(v), at)
                        if isinstance(v, ast.Constant):
                            return True
                        if isinstance(v, ast.IfExp):
                            return alt_ok(v.body, at) and alt_ok(v.orelse, at)
                        if isinstance(v, ast.Call) and isinstance(v.func, ast.Attribute) and v.func.attr == "renderInlineAsText" and bool(v.args):
                            a0 = _expand_arg(c, f, v.args[0], at) if at is not None else v.args[0]
                            if U(a0).endswith(".children") and U(a0).split(".")[0] == U(recv):
                                return True
                        # self._altText(token, ...): a private helper whose every return is renderInlineAsText(<its token param>.children)
                        if isinstance(v, ast.Call):
                            cs2 = c.cg.site_of.get(v)
                            if cs2 is not None and len(cs2.callees) == 1 and cs2.callees[0].cls == "RendererHTML" and cs2.callees[0].name.startswith("_"):
                                h = cs2.callees[0]
                                tp = next((pn for pn in [a.arg for a in h.node.args.args] if c.eff.arg_for_param(cs2, h, pn) is not None
                                           and U(c.eff.arg_for_param(cs2, h, pn)) == U(recv)), None)
                                rets = [n_ for n_ in own_nodes(h.node) if isinstance(n_, ast.Return) and n_.value is not None]
                                if tp and rets and all(isinstance(rt.value, ast.Constant) or (
                                        isinstance(rt.value, ast.Call) and isinstance(rt.value.func, ast.Attribute) and rt.value.func.attr == "renderInlineAsText"
                                        and rt.value.args and U(rt.value.args[0]) in (f"{tp}.children", f"{tp}.children or []")) for rt in rets):
                                    return True
                        return False
                    ok = bool(vals) and all(alt_ok(v) for v in vals)
                    r.add(key, c.where(f, cs.node), f.short, U(cs.node)[:70], "discharged" if ok else "violation",
                          "idempotent: the alt text is recomputed from the token's own children, which the renderer never writes" if ok else
                          "alt is not a pure function of the token's own children")
                else:
                    r.add(key, c.where(f, cs.node), f.short, U(cs.node)[:70], "violation",
                          "the renderer mutates a stream token: a second render of the same stream differs")
    # scratch token attrs must be a copy
    fence = c.reg.render_rules.get("fence")
    if fence is None:
        raise AnchorError("RendererHTML.fence not found")
    for n in own_nodes(fence.node):
        if isinstance(n, ast.Call) and isinstance(n.func, ast.Name) and n.func.id == "Token":
            for k in n.keywords:
                if k.arg == "attrs":
                    ok = c.eff.fresh_expr(fence, k.value)
                    r.add("fence|scratch-attrs", c.where(fence, n), fence.short, U(k.value), "discharged" if ok else "violation",
                          "scratch token gets a copy of the stream token's attrs" if ok else
                          "scratch token shares the attrs dict of the stream token: attrJoin on it mutates the stream")
    # renderInlineAsText reads only
    rit = c.p.func("renderer.py:RendererHTML.renderInlineAsText")
    ok = all(e.category in ("local", "scalar") for e in c.eff.by_func[rit])
    r.add("renderInlineAsText|pure", c.where(rit, rit.node), rit.short, "reads tokens", "discharged" if ok else "violation",
          "no write effect on its arguments" if ok else "writes to its arguments")
    r.functions = len(rphase)
    r.floor = 5
    return r


def rule_serial(c: Ctx) -> RuleResult:
    """C15 structural clauses of the serialisation / tree code."""
    r = RuleResult("SERIAL", "Token.from_dict hands every serialised field to the constructor (a field taken out of the mapping is assigned "
                             "back on every path); the tree builder pairs tokens by counting `nesting`, never by `level` (which is not an "
                             "invariant of every configuration)")
    fd = c.p.func("token.py:Token.from_dict")
    dparam = fd.node.args.args[1].arg
    cfg = c.cfg(fd)
    # names that alias (a copy of) the mapping
    maps = {dparam}
    for n in own_nodes(fd.node):
        if isinstance(n, ast.Assign) and len(n.targets) == 1 and isinstance(n.targets[0], ast.Name):
            v = n.value
            if (isinstance(v, ast.Call) and any(isinstance(x, ast.Name) and x.id in maps for a in list(v.args) + [k.value for k in v.keywords] for x in ast.walk(a))
                    and U(v.func) in ("dict", "copy.copy", "copy")) or (isinstance(v, ast.Call) and isinstance(v.func, ast.Attribute) and v.func.attr == "copy"
                                                                     and isinstance(v.func.value, ast.Name) and v.func.value.id in maps) \
                    or (isinstance(v, ast.Dict) and any(k is None and isinstance(x, ast.Name) and x.id in maps for k, x in zip(v.keys, v.values))):
                maps.add(n.targets[0].id)
    ctor = [n for n in own_nodes(fd.node) if isinstance(n, ast.Call) and isinstance(n.func, ast.Name) and n.func.id in ("cls", "Token")
            and any(k.arg is None and isinstance(k.value, ast.Name) and k.value.id in maps for k in n.keywords)]
    if not ctor:
        r.add("from_dict|ctor", c.where(fd, fd.node), fd.short, "cls(**dct)", "violation",
              "from_dict no longer builds the token from the whole mapping (`cls(**dct)`): field-by-field reconstruction is not checked here")
    else:
        removed: dict[str, ast.AST] = {}
        for n in own_nodes(fd.node):
            if isinstance(n, ast.Call) and isinstance(n.func, ast.Attribute) and n.func.attr == "pop" and isinstance(n.func.value, ast.Name) \
                    and n.func.value.id in maps and n.args and isinstance(n.args[0], ast.Constant):
                removed[n.args[0].value] = n
            if isinstance(n, ast.Delete):
                for t in n.targets:
                    if isinstance(t, ast.Subscript) and isinstance(t.value, ast.Name) and t.value.id in maps and isinstance(t.slice, ast.Constant):
                        removed[t.slice.value] = n
        r.add("from_dict|ctor", c.where(fd, ctor[0]), fd.short, U(ctor[0]), "discharged", "the token is built from the mapping itself")
        tokname = None
        par = fd.module.parents.get(ctor[0])
        if isinstance(par, ast.Assign) and isinstance(par.targets[0], ast.Name):
            tokname = par.targets[0].id
        for fld, node in sorted(removed.items()):
            # every path from the constructor call to a return stores token.<fld>
            starts = [n for n in cfg.owner(ctor[0])]
            ok = tokname is not None
            if ok:
                seen: set[int] = set()
                stack = [m for st_ in starts for (m, l) in st_.succ if l != "exc"]
                while stack:
                    x = stack.pop()
                    if x.id in seen:
                        continue
                    seen.add(x.id)
                    if x.kind == "stmt" and isinstance(x.ast, ast.Assign) and any(U(t) == f"{tokname}.{fld}" for t in x.ast.targets):
                        continue
                    if x is cfg.exit:
                        ok = False
                        break
                    stack.extend(m for (m, l) in x.succ if l != "exc")
            r.add(f"from_dict|removed|{fld}", c.where(fd, node), fd.short, U(node)[:60], "discharged" if ok else "violation",
                  f"`{fld}` is taken out of the mapping and assigned back on every path" if ok else
                  f"`{fld}` is taken out of the mapping before the constructor call and is not assigned back on every path: for some values "
                  f"(an empty list) the field silently becomes the default and the round trip is not the identity")
    # tree builder
    tree = c.p.module("tree.py")
    for f in sorted(c.p.all_funcs(), key=lambda x: x.qual):
        if f.module is not tree or f.is_property:
            continue
        sc = c.tf.scope(f)
        for n in own_nodes(f.node):
            if isinstance(n, ast.Attribute) and n.attr == "level" and isinstance(n.ctx, ast.Load):
                t = sc.type(n.value)
                if t == "Token" or t is None:
                    r.add(f"tree|level-read|{f.short}", c.where(f, n), f.short, U(f.module.parents.get(n, n))[:70], "violation",
                          "the syntax-tree code reads a token's `level`: levels are recomputed only by an optional rule (fragments_join), so "
                          "pairing by level breaks tree construction for streams that are correctly nested by `nesting`")
    bld = c.p.funcs.get("tree.py:SyntaxTreeNode._set_children_from_tokens")
    if bld is None:
        raise AnchorError("tree.py: SyntaxTreeNode._set_children_from_tokens not found")
    uses = any(isinstance(n, ast.Attribute) and n.attr == "nesting" for n in own_nodes(bld.node))
    r.add("tree|nesting", c.where(bld, bld.node), bld.short, "pairing of open / close tokens", "discharged" if uses else "violation",
          "the builder pairs tokens by their `nesting`" if uses else "the tree builder does not look at `nesting`")
    r.floor = 2
    return r


# ------------------------------------------------------------------------------------------------ IDENT
def rule_ident(c: Ctx) -> RuleResult:
    """Navigation by position: `siblings.index(self)` finds *this* node only if equality of nodes is identity.  Every search of
    a list for one of its own elements by equality (`index`, `remove`, `count`, `in`) whose element is an instance of a package
    class requires that the class - its package bases and subclasses included - defines no `__eq__` (and is not a dataclass
    with the generated one)."""
    r = RuleResult("IDENT", "a node is located among its siblings by equality (`list.index(self)`), so equality of tree nodes must be "
                            "identity: the class and its package relatives define no __eq__")
    nsites = 0

    def relatives(k: str) -> list:
        out, todo = [], [k]
        while todo:
            x = todo.pop()
            ci = c.p.classes.get(x)
            if ci is None or ci in out:
                continue
            out.append(ci)
            todo += [b.split(".")[-1].split("[")[0] for b in ci.bases]
            todo += [o.name for o in c.p.classes.values() if any(b.split(".")[-1].split("[")[0] == x for b in o.bases)]
        return out
    for f in sorted(c.p.all_funcs(), key=lambda x: x.qual):
        if f.module.rel.startswith("cli/"):
            continue
        sc = c.tf.scope(f)
        selfn = f.node.args.args[0].arg if f.cls and f.node.args.args else None
        for n in own_nodes(f.node):
            elem = None
            if isinstance(n, ast.Call) and isinstance(n.func, ast.Attribute) and n.func.attr in ("index", "remove", "count") and n.args:
                elem = n.args[0]
            elif isinstance(n, ast.Compare) and len(n.ops) == 1 and isinstance(n.ops[0], (ast.In, ast.NotIn)):
                elem = n.left
            if elem is None:
                continue
            k = None
            if isinstance(elem, ast.Name) and elem.id == selfn and f.cls:
                k = f.cls.split("@")[0]
            else:
                t = sc.type(elem)
                if isinstance(t, str) and t.split("@")[0] in c.p.classes:
                    k = t.split("@")[0]
            if k is None or k == "Token" and False:
                continue
            nsites += 1
            bad = None
            for ci in relatives(k):
                if "__eq__" in ci.methods:
                    bad = f"class {ci.name} defines __eq__"
                for d in ci.node.decorator_list:
                    dn = d.func if isinstance(d, ast.Call) else d
                    if U(dn).split(".")[-1] == "dataclass" and not (isinstance(d, ast.Call) and any(
                            kw.arg == "eq" and isinstance(kw.value, ast.Constant) and kw.value.value is False for kw in d.keywords)):
                        bad = f"class {ci.name} is a dataclass with a generated __eq__"
            r.add(f"{f.short}|{alpha(f, n)[:60]}", c.where(f, n), f.short, U(n)[:70], "violation" if bad else "discharged",
                  f"`{U(elem)}` is searched for by equality, but {bad}: the first *equal* element is found, not this one (sibling navigation "
                  f"lands on a different node)" if bad else f"equality of {k} instances is identity (no __eq__ in {', '.join(ci.name for ci in relatives(k))})")
    # the two navigation properties either search by equality (counted above) or compare with `is`
    for m in ("next_sibling", "previous_sibling"):
        g = c.p.method("SyntaxTreeNode", m)
        if g is None:
            raise AnchorError(f"SyntaxTreeNode.{m} not found")
        reach_ = {g}
        for _ in range(3):
            reach_ |= {h for q in list(reach_) for cs in c.cg.sites.get(q, []) if cs.kind in ("method", "direct") for h in cs.callees if h.module is g.module}
        if any(o.func in {q.short for q in reach_} for o in r.obligations):
            continue
        ident = any(isinstance(x, ast.Compare) and any(isinstance(op, (ast.Is, ast.IsNot)) for op in x.ops)
                    and any(isinstance(y, ast.Name) and q.node.args.args and y.id == q.node.args.args[0].arg for y in ast.walk(x))
                    for q in reach_ for x in ast.walk(q.node))
        if not ident:
            raise AnchorError(f"SyntaxTreeNode.{m}: neither an equality-based search nor an identity comparison with self found")
        r.add(f"{g.short}|identity", c.where(g, g.node), g.short, m, "discharged", "the node is located by an identity comparison (`is`): independent of __eq__")
    r.floor = 1
    return r
