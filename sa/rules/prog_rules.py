"""PROG: rule contracts that the two dispatch loops rely on (they do not check progress themselves).

IR-1  every path of an inline rule to ``return True`` has written the cursor ``state.pos``;
IR-2  at every ``return False`` of an inline rule ``state.pos`` holds its entry value, and ``state.posMax`` holds its
      entry value at *every* return (``link`` narrows it temporarily);
BR-1  every path of a block rule to a non-validation ``return True`` has written ``state.line`` (directly or through a
      nested ``ParserBlock.tokenize``).
Decided by value numbering with symbolic entry values; callee effects come from the effect summaries, with the
co-inductive assumption that the functions being verified preserve ``posMax`` themselves.
"""
from __future__ import annotations

import ast
from typing import Any

from ..core import Func, U, own_nodes
from ..ctx import Ctx
from ..report import RuleResult
from ..valnum import VN, analyse, entry


def _ret_kind(v: ast.AST | None) -> str:
    if isinstance(v, ast.Constant) and v.value is True:
        return "T"
    if isinstance(v, ast.Constant) and v.value is False:
        return "F"
    return "?"


def posmax_preserving(c: Ctx) -> tuple[set[Func], dict[Func, list[tuple[ast.AST, str]]]]:
    """Greatest set P of functions (candidates: everything in the parse phase that receives a StateInline) such that
    every member, assuming calls into P leave ``<state>.posMax`` alone, returns with posMax at its entry value.
    -> (P, failures: function -> [(return node, value description)])"""
    cached = getattr(c, "_posmax_P", None)
    if cached is not None:
        return cached
    cands: dict[Func, str] = {}
    for f in c.cg.parse_phase():
        if f.name == "__init__":
            continue                       # a constructor establishes posMax, it has no entry value to preserve
        a = f.node.args.posonlyargs + f.node.args.args
        sc = c.tf.scope(f)
        for p in a:
            if sc.env.get(p.arg) == "StateInline":
                cands[f] = p.arg
                break
    P = set(cands)
    fails: dict[Func, list[tuple[ast.AST, str]]] = {}
    changed = True
    while changed:
        changed = False
        for f in sorted(P, key=lambda x: x.qual):
            bad = _posmax_fail(c, f, cands[f], P)
            if bad:
                P.discard(f)
                fails[f] = bad
                changed = True
    c._posmax_P = (P, fails)          # type: ignore[attr-defined]
    # functions that return with the cursor where they found it (parseLinkLabel's save / restore): no co-induction needed
    Q: set[Func] = set()
    c._pos_Q = Q                      # type: ignore[attr-defined]
    for f in sorted(cands, key=lambda x: x.qual):
        if f in c.reg.by_func():
            continue
        if not _posmax_fail(c, f, cands[f], P, fld="pos"):
            Q.add(f)
    return P, fails


def pos_preserving(c: Ctx) -> set[Func]:
    posmax_preserving(c)
    return c._pos_Q                   # type: ignore[attr-defined]


def _override_for(c: Ctx, P: set[Func]):
    def override(cs: Any, call: ast.Call, env: dict, nid: int) -> bool:
        if cs is None or not cs.callees or not any(g in P for g in cs.callees):
            return False
        v = ("def", nid, "call:" + U(call.func).split(".")[-1])
        for g in cs.callees:
            for (r, fld) in c.eff.site_writes_of(cs, g):
                Q = getattr(c, "_pos_Q", set())
                if g in P and fld == "posMax":
                    continue             # co-inductive contract: g returns with posMax at its entry value
                if g in Q and fld == "pos":
                    continue             # verified: g returns with pos at its entry value
                if fld == "*" and (g in P or g in Q):
                    keep = {k: VN.get(env, f"{r}.{k}") for k, S in (("posMax", P), ("pos", Q)) if g in S}
                    VN._clobber_root(env, r, fld, v)
                    for k, val in keep.items():
                        env[f"{r}.{k}"] = val
                else:
                    VN._clobber_root(env, r, fld, v)
        return True
    return override


def inline_vn(c: Ctx, f: Func):
    """Value numbering of an inline-phase function under the posMax co-inductive contract."""
    P, _ = posmax_preserving(c)
    ov = _override_for(c, P)
    cfg, res, vn = analyse(c, f, ov)
    return cfg, res, vn


def _posmax_fail(c: Ctx, f: Func, st: str, P: set[Func], fld: str = "posMax") -> list[tuple[ast.AST, str]]:
    ov = _override_for(c, P)
    vn = VN(c, f, ov)
    from ..dataflow import solve
    res = solve(vn.cfg, vn, widen_after=10**9)
    bad = []
    key = f"{st}.{fld}"
    for n in vn.cfg.nodes:
        exits = [m for (m, l) in n.succ if m is vn.cfg.exit]
        if not exits or res.get(n.id) is None:
            continue
        out = vn.edge(n, res[n.id], "return", vn.cfg.exit)
        v = VN.get(out, key)
        if v != entry(key):
            bad.append((n.ast, str(v)))
    return bad


def contract_call_kills(c: Ctx, f: Func):
    """Call transfer function for the facts analysis that honours the verified contracts: a callee in P leaves posMax
    alone, a callee in Q leaves pos alone."""
    from ..facts import default_call_kills
    P, _ = posmax_preserving(c)
    Q = pos_preserving(c)
    base = c.eff.call_kills(f)

    def kills(call: ast.Call):
        cs = c.cg.site_of.get(call)
        if cs is None or not cs.callees or not any(g in P or g in Q for g in cs.callees):
            return base(call)
        out = []
        for g in cs.callees:
            for (pname, fld) in c.eff.writes.get(g, ()):
                if (g in P and fld == "posMax") or (g in Q and fld == "pos"):
                    continue
                arg = c.eff.arg_for_param(cs, g, pname)
                if arg is None:
                    continue
                b = U(arg)
                out.append(b if fld == "*" else f"{b}.{fld}")
        return out
    return kills


def rule_prog(c: Ctx) -> RuleResult:
    r = RuleResult("PROG", "rule contracts of the dispatch loops: an inline rule that returns True has written the cursor, one that "
                           "returns False left pos untouched, posMax is restored at every return; a block rule that returns True "
                           "(outside validation mode) has written state.line")
    P, fails = posmax_preserving(c)
    # ---- inline rules
    seen: set[Func] = set()
    for reg in c.reg.rules["inline"]:
        f = reg.func
        if f in seen:
            continue
        seen.add(f)
        r.functions += 1
        st = f.node.args.args[0].arg
        cfg, res, vn = inline_vn(c, f)
        r.paths += min(cfg.paths_count(), 10**6)
        kpos, kmax = f"{st}.pos", f"{st}.posMax"
        for n in cfg.nodes:
            if not (n.kind == "stmt" and isinstance(n.ast, ast.Return)) or res.get(n.id) is None:
                continue
            env = res[n.id]
            if n.ast.value is not None and any(isinstance(x, ast.Call) for x in ast.walk(n.ast.value)):
                # `return helper(state, ...)`: the state the caller sees is the one after the calls in the returned expression
                lab = next((l for (m_, l) in n.succ if l != "exc"), "return")
                succ = next((m_ for (m_, l) in n.succ if l != "exc"), cfg.exit)
                env = vn.edge(n, env, lab, succ) or env
            kind = _ret_kind(n.ast.value)
            if kind == "?" and isinstance(n.ast.value, ast.Call):
                # a helper that always reports the same result
                cs_ = c.cg.site_of.get(n.ast.value)
                if cs_ is not None and len(cs_.callees) == 1 and cs_.kind in ("direct", "method"):
                    hk = {_ret_kind(x.value) for x in own_nodes(cs_.callees[0].node) if isinstance(x, ast.Return)}
                    if len(hk) == 1 and hk != {"?"}:
                        kind = hk.pop()
            vpos, vmax = VN.get(env, kpos), VN.get(env, kmax)
            where = c.where(f, n.ast)
            base = f"{f.short}|return {U(n.ast.value) if n.ast.value else ''}|"
            if kind in ("F", "?"):
                key = base + "IR-2"
                if vpos == entry(kpos):
                    r.add(key + f"|{n.ast.lineno - f.node.lineno}", where, f.short, U(n.ast), "discharged",
                          f"IR-2: {kpos} holds its entry value at this return")
                else:
                    r.add(base + "IR-2", where, f.short, U(n.ast), "violation",
                          f"IR-2: the rule reports no match but {kpos} may have moved (value {vpos}); the dispatch loop would hand "
                          f"the next rule a cursor the contract pos < posMax was not tested for")
            if kind in ("T", "?"):
                if vpos != entry(kpos):
                    r.add(base + f"IR-1|{n.ast.lineno - f.node.lineno}", where, f.short, U(n.ast), "discharged",
                          f"IR-1: {kpos} was written on every path to this return")
                else:
                    r.add(base + "IR-1", where, f.short, U(n.ast), "violation",
                          f"IR-1: the rule reports a match but {kpos} still holds its entry value on this path: the inline loop "
                          f"would dispatch the same position again (non-termination)")
            if vmax != entry(kmax):
                r.add(base + "IR-2max", where, f.short, U(n.ast), "violation",
                      f"IR-2: {kmax} does not hold its entry value at this return (value {vmax}); later reads bounded by posMax "
                      f"would use a stale limit")
        if f not in P:
            for (node, val) in fails.get(f, []):
                pass        # reported above through vmax
    # the dispatchers and helpers that take part in the posMax contract
    for f in sorted(P, key=lambda x: x.qual):
        if f in seen:
            continue
        r.add(f"{f.short}|posMax", c.where(f, f.node), f.short, f"def {f.name}(...)", "discharged",
              "posMax holds its entry value at every exit (co-inductively with the other functions of the inline phase)")
    rule_funcs = {reg.func for ch in ("inline", "inline2") for reg in c.reg.rules[ch]}
    for f, bad in sorted(fails.items(), key=lambda kv: kv[0].qual):
        if f in seen:
            continue
        # a private helper of a rule's module that narrows posMax and leaves the restore to its callers is fine as long as every
        # caller is itself in P (its own exits are checked with the helper's effect on posMax taken into account)
        callers = c.cg.callers.get(f, [])
        if f not in rule_funcs and f.name.startswith("_") and callers and all(cs.kind in ("direct", "method") and cs.caller in P for cs in callers):
            r.add(f"{f.short}|posMax", c.where(f, f.node), f.short, f"def {f.name}(...)", "discharged",
                  "private helper that leaves posMax changed: every caller restores it before its own exits (each caller is in the "
                  "posMax-preserving set)")
            continue
        for (node, val) in bad:
            r.add(f"{f.short}|posMax", c.where(f, node) if node is not None else c.where(f, f.node), f.short,
                  U(node)[:70] if node is not None else f.name, "violation",
                  f"posMax is not restored at this exit (value {val}): callers' bounds by posMax would be stale")
    # ---- block rules
    tok = c.p.func("parser_block.py:ParserBlock.tokenize")
    for reg in c.reg.rules["block"]:
        f = reg.func
        r.functions += 1
        st = f.node.args.args[0].arg
        silent = f.node.args.args[3].arg if len(f.node.args.args) > 3 else "silent"
        cfg, res, vn = analyse(c, f)
        fcfg, fres = c.facts(f)
        kline = f"{st}.line"
        for n in cfg.nodes:
            if not (n.kind == "stmt" and isinstance(n.ast, ast.Return)) or res.get(n.id) is None:
                continue
            kind = _ret_kind(n.ast.value)
            if kind == "F":
                continue
            z = fres.get(n.id)
            if z is not None and z.holds(silent, True):
                r.add(f"{f.short}|return|silent|{n.ast.lineno - f.node.lineno}", c.where(f, n.ast), f.short, U(n.ast), "discharged",
                      "trivial: validation-mode return (the caller does not advance on it)")
                continue
            v = VN.get(res[n.id], kline)
            if v != entry(kline):
                r.add(f"{f.short}|return True|BR-1|{n.ast.lineno - f.node.lineno}", c.where(f, n.ast), f.short, U(n.ast),
                      "discharged", f"BR-1: {kline} was written on every path to this return")
            else:
                r.add(f"{f.short}|return True|BR-1", c.where(f, n.ast), f.short, U(n.ast), "violation",
                      f"BR-1: the rule reports a match but {kline} still holds its entry value on this path: the block loop would "
                      f"dispatch the same line again (non-termination)")
    r.floor = 80
    return r
