"""C10 rule families: FANOUT (the facade reaches all four rulers with the same request), OPTKEY (three option routes, one
cell), TRIG (an extension's effects are dominated by its trigger test), GATE (option-gated effects are confined), PRODUCERS
(token kind -> producing rules equals the reviewed table; rule functions are reached only through their ruler; preset closure)."""
from __future__ import annotations

import ast
from typing import Any

from ..cfg import CFG, Node
from ..core import AnchorError, Func, U, own_nodes, presets
from ..ctx import Ctx
from ..report import RuleResult, alpha
from ..tokens import literal_strs, option_read_key, token_sites

RULERS = {"core", "block", "inline", "inline2"}
OPTION_KEYS = ["maxNesting", "html", "linkify", "typographer", "quotes", "xhtmlOut", "breaks", "langPrefix", "highlight"]


# ------------------------------------------------------------------------------------------------ FANOUT
def _ruler_targets(f: Func, call: ast.Call) -> set[str]:
    """Which of the four rulers does the receiver of `call` (…ruler.op(..) / …ruler2.op(..)) denote?"""
    fn = call.func
    if not isinstance(fn, ast.Attribute):
        return set()
    r = fn.value
    if not (isinstance(r, ast.Attribute) and r.attr in ("ruler", "ruler2")):
        return set()
    base = r.value
    selfn = f.node.args.args[0].arg if f.node.args.args else "self"
    chains: set[str] = set()
    if isinstance(base, ast.Attribute) and isinstance(base.value, ast.Name) and base.value.id == selfn and base.attr in ("core", "block", "inline"):
        chains = {base.attr}
    elif isinstance(base, ast.Subscript) and isinstance(base.value, ast.Name) and base.value.id == selfn:
        k = base.slice
        if isinstance(k, ast.Constant) and isinstance(k.value, str):
            chains = {k.value}
        elif isinstance(k, ast.Name):
            chains = _loop_literals(f, k.id, call)
    if r.attr == "ruler2":
        return {"inline2"} if chains == {"inline"} else {"?"}
    return chains


def _loop_literals(f: Func, var: str, inside: ast.AST) -> set[str]:
    """String literals a loop / comprehension variable ranges over (for chain in ['core', 'block', 'inline'])."""
    p = f.module.parents.get(inside)
    while p is not None and p is not f.node:
        gens: list[tuple[ast.AST, ast.AST]] = []
        if isinstance(p, ast.For):
            gens = [(p.target, p.iter)]
        elif isinstance(p, (ast.ListComp, ast.SetComp, ast.DictComp, ast.GeneratorExp)):
            gens = [(g.target, g.iter) for g in p.generators]
        for tg, it in gens:
            names = [x.id for x in ast.walk(tg) if isinstance(x, ast.Name)]
            if var in names:
                if isinstance(it, ast.Name) and it.id not in {x.id for x in ast.walk(f.node) if isinstance(x, ast.Name) and isinstance(x.ctx, ast.Store)}:
                    # a module-level constant tuple / list of names (_CHAINS = ("core", "block", "inline"))
                    d_ = f.module.defs.get(it.id)
                    v_ = getattr(d_, "value", None)
                    if isinstance(v_, (ast.List, ast.Tuple, ast.Set)):
                        it = v_
                if isinstance(it, (ast.List, ast.Tuple, ast.Set)) and all(isinstance(e, ast.Constant) and isinstance(e.value, str) for e in it.elts):
                    return {e.value for e in it.elts}
                # for chain, rules in snapshot.items(): ... if chain != "inline2"
                if isinstance(it, ast.Call) and isinstance(it.func, ast.Attribute) and it.func.attr in ("items", "keys"):
                    out = {"core", "block", "inline", "inline2"}
                    q = f.module.parents.get(inside)
                    while q is not None and q is not p:
                        if isinstance(q, ast.If) and isinstance(q.test, ast.Compare) and len(q.test.ops) == 1 \
                                and isinstance(q.test.left, ast.Name) and q.test.left.id == var \
                                and isinstance(q.test.comparators[0], ast.Constant):
                            lit = q.test.comparators[0].value
                            in_body = any(any(x is inside for x in ast.walk(s)) for s in q.body)
                            if isinstance(q.test.ops[0], ast.NotEq):
                                out = out - {lit} if in_body else {lit}
                            elif isinstance(q.test.ops[0], ast.Eq):
                                out = {lit} if in_body else out - {lit}
                        q = f.module.parents.get(q)
                    return out
                return {"?"}
        p = f.module.parents.get(p)
    return {"?"}


FACADE = {
    "enable": ("enable", True),
    "disable": ("disable", True),
    "get_active_rules": ("get_active_rules", False),
    "get_all_rules": ("get_all_rules", False),
    "reset_rules": ("enableOnly", False),
}
RULER_OPS = {"enable", "disable", "enableOnly", "get_active_rules", "get_all_rules", "getRules", "push", "at", "before", "after"}


class _Ops:
    """Which (ruler, operation, first argument) calls does a facade method make - following private helpers of the same
    class (with their parameters bound to the actual arguments), generator helpers that yield the rulers, local aliases of
    a ruler or of a bound method, and `a if flag else b` selections on a constant flag."""

    def __init__(self, c: Ctx) -> None:
        self.c = c
        self.out: list[tuple[str, str, str, ast.AST, Func]] = []      # (ruler, op, first arg text, call node, function)
        self.unresolved: list[tuple[ast.AST, Func]] = []

    def _const(self, e: ast.AST, binds: dict[str, ast.AST]) -> ast.AST:
        seen = 0
        while isinstance(e, ast.Name) and e.id in binds and seen < 5:
            e = binds[e.id]
            seen += 1
        return e

    def _defs(self, f: Func, name: str) -> list[ast.AST]:
        out = []
        for n in own_nodes(f.node):
            if isinstance(n, ast.Assign) and any(isinstance(t, ast.Name) and t.id == name for t in n.targets):
                out.append(n.value)
            elif isinstance(n, ast.AnnAssign) and isinstance(n.target, ast.Name) and n.target.id == name and n.value is not None:
                out.append(n.value)
        return out

    def rulers(self, f: Func, e: ast.AST, binds: dict[str, ast.AST], at: ast.AST, depth: int = 0) -> set[str]:
        if depth > 5:
            return {"?"}
        selfn = f.node.args.args[0].arg if f.node.args.args else "self"
        if isinstance(e, ast.IfExp):
            t = self._const(e.test, binds)
            if isinstance(t, ast.Constant):
                return self.rulers(f, e.body if t.value else e.orelse, binds, at, depth + 1)
            return self.rulers(f, e.body, binds, at, depth + 1) | self.rulers(f, e.orelse, binds, at, depth + 1)
        if isinstance(e, ast.Attribute) and e.attr in ("ruler", "ruler2"):
            base = e.value
            chains: set[str] = set()
            if isinstance(base, ast.Attribute) and isinstance(base.value, ast.Name) and base.value.id == selfn and base.attr in ("core", "block", "inline"):
                chains = {base.attr}
            elif isinstance(base, ast.Subscript) and isinstance(base.value, ast.Name) and base.value.id == selfn:
                k = self._const(base.slice, binds)
                if isinstance(k, ast.Constant) and isinstance(k.value, str):
                    chains = {k.value}
                elif isinstance(k, ast.Name):
                    chains = _loop_literals(f, k.id, at)
            elif isinstance(base, ast.Name):
                # component = self[chain]
                for d in self._defs(f, base.id):
                    fake = ast.Attribute(value=d, attr=e.attr, ctx=ast.Load())
                    chains |= {x for x in self.rulers(f, fake, binds, at, depth + 1)}
                return chains or {"?"}
            if not chains:
                return {"?"}
            if e.attr == "ruler2":
                return {"inline2"} if chains == {"inline"} else {"?"}
            return chains
        if isinstance(e, ast.Name):
            if e.id in binds:
                return self.rulers(f, binds[e.id], binds, at, depth + 1)
            out: set[str] = set()
            ds = self._defs(f, e.id)
            for d in ds:
                out |= self.rulers(f, d, binds, at, depth + 1)
            # loop variable over a generator helper / a literal list of rulers
            for n in own_nodes(f.node):
                it = None
                if isinstance(n, (ast.For, ast.comprehension)) and isinstance(n.target, ast.Name) and n.target.id == e.id:
                    it = n.iter
                elif isinstance(n, (ast.For, ast.comprehension)) and isinstance(n.target, ast.Tuple) and isinstance(n.iter, ast.Call) \
                        and isinstance(n.iter.func, ast.Name) and n.iter.func.id == "zip" and len(n.iter.args) == len(n.target.elts):
                    # for chain, ruler in zip((...names...), <rulers>)
                    for t_, a_ in zip(n.target.elts, n.iter.args):
                        if isinstance(t_, ast.Name) and t_.id == e.id:
                            it = a_
                elif isinstance(n, (ast.For, ast.comprehension)) and isinstance(n.target, ast.Tuple) \
                        and any(isinstance(t_, ast.Name) and t_.id == e.id for t_ in n.target.elts):
                    # for label, ruler in <helper yielding (label, ruler) pairs>
                    idx = next(i for i, t_ in enumerate(n.target.elts) if isinstance(t_, ast.Name) and t_.id == e.id)
                    got = False
                    for (gf, x, ctx_node) in self._list_elems(f, n.iter, binds, 0):
                        if isinstance(x, ast.Tuple) and len(x.elts) == len(n.target.elts):
                            out |= self.rulers(gf, x.elts[idx], binds if gf is f else {}, ctx_node, depth + 1)
                            got = True
                    if got:
                        continue
                if it is not None:
                    for (gf, x, ctx_node) in self._list_elems(f, it, binds, 0):
                        out |= self.rulers(gf, x, binds if gf is f else {}, ctx_node, depth + 1)
                    if out:
                        continue
                    if isinstance(it, ast.Call):
                        cs = self.c.cg.site_of.get(it)
                        for g in (cs.callees if cs is not None else []):
                            for y in own_nodes(g.node):
                                if isinstance(y, ast.Yield) and y.value is not None:
                                    out |= self.rulers(g, y.value, {}, y, depth + 1)
                            for rt in own_nodes(g.node):
                                if isinstance(rt, ast.Return) and isinstance(rt.value, (ast.List, ast.Tuple)):
                                    for x in rt.value.elts:
                                        out |= self.rulers(g, x, {}, rt, depth + 1)
                    elif isinstance(it, (ast.List, ast.Tuple)):
                        for x in it.elts:
                            out |= self.rulers(f, x, binds, at, depth + 1)
            return out or {"?"}
        return {"?"}

    def _list_elems(self, g: Func, e: ast.AST, binds: dict[str, ast.AST], depth: int) -> list[tuple[Func, ast.AST, ast.AST]]:
        """Element expressions of a list-valued expression: literal, comprehension, a local list (its definitions plus what is
        appended / extended to it), or a helper of the class returning one.  -> [(function, element expr, context node)]"""
        if depth > 4:
            return []
        if isinstance(e, (ast.List, ast.Tuple)):
            return [(g, x, x) for x in e.elts]
        if isinstance(e, (ast.ListComp, ast.GeneratorExp)):
            return [(g, e.elt, e.elt)]
        if isinstance(e, ast.Name):
            out: list[tuple[Func, ast.AST, ast.AST]] = []
            for d in self._defs(g, e.id):
                out += self._list_elems(g, d, binds, depth + 1)
            for n in own_nodes(g.node):
                if isinstance(n, ast.Call) and isinstance(n.func, ast.Attribute) and isinstance(n.func.value, ast.Name) and n.func.value.id == e.id:
                    if n.func.attr == "append" and n.args:
                        out.append((g, n.args[0], n))
                    elif n.func.attr == "extend" and n.args:
                        out += self._list_elems(g, n.args[0], binds, depth + 1)
            return out
        if isinstance(e, ast.Call) and isinstance(e.func, ast.Name) and e.func.id in ("list", "tuple", "iter") and len(e.args) == 1:
            return self._list_elems(g, e.args[0], binds, depth + 1)
        if isinstance(e, ast.Call) and isinstance(e.func, ast.Attribute) and e.func.attr in ("values", "items") and not e.args and not e.keywords:
            # the values / (key, value) pairs of a dict of rulers (`self._rulers().values()`)
            des = self._dict_elems(g, e.func.value, depth + 1)
            if e.func.attr == "values":
                return [(h, v, ctx) for (h, k, v, ctx) in des]
            return [(h, ast.Tuple(elts=[k, v], ctx=ast.Load()), ctx) for (h, k, v, ctx) in des]
        if isinstance(e, ast.Call):
            cs = self.c.cg.site_of.get(e)
            out = []
            for h in (cs.callees if cs is not None else []):
                if h.cls != g.cls:
                    continue
                for rt in own_nodes(h.node):
                    if isinstance(rt, ast.Return) and rt.value is not None:
                        out += self._list_elems(h, rt.value, {}, depth + 1)
                    if isinstance(rt, ast.Yield) and rt.value is not None:
                        out.append((h, rt.value, rt))
            return out
        return []

    def _dict_elems(self, g: Func, e: ast.AST, depth: int) -> list[tuple[Func, ast.AST, ast.AST, ast.AST]]:
        """(function, key expr, value expr, context node) of a dict-valued expression: a literal, a comprehension, a local dict
        (its definitions plus the `d[k] = v` stores), `dict(<dict>)`, or a helper of the class returning one."""
        if depth > 5:
            return []
        if isinstance(e, ast.Dict):
            return [(g, k, v, v) for k, v in zip(e.keys, e.values) if k is not None]
        if isinstance(e, ast.DictComp):
            return [(g, e.key, e.value, e.value)]
        if isinstance(e, ast.Name):
            out: list[tuple[Func, ast.AST, ast.AST, ast.AST]] = []
            for d in self._defs(g, e.id):
                out += self._dict_elems(g, d, depth + 1)
            for n in own_nodes(g.node):
                if isinstance(n, ast.Assign) and len(n.targets) == 1 and isinstance(n.targets[0], ast.Subscript) \
                        and isinstance(n.targets[0].value, ast.Name) and n.targets[0].value.id == e.id:
                    out.append((g, n.targets[0].slice, n.value, n.value))
            return out
        if isinstance(e, ast.Call) and isinstance(e.func, ast.Name) and e.func.id == "dict" and len(e.args) == 1 and not e.keywords:
            return self._dict_elems(g, e.args[0], depth + 1)
        if isinstance(e, ast.Call):
            cs = self.c.cg.site_of.get(e)
            out = []
            for h in (cs.callees if cs is not None else []):
                if h.cls != g.cls:
                    continue
                for rt in own_nodes(h.node):
                    if isinstance(rt, ast.Return) and rt.value is not None:
                        out += self._dict_elems(h, rt.value, depth + 1)
            return out
        return []

    def collect(self, f: Func, binds: dict[str, ast.AST], depth: int = 0) -> None:
        if depth > 3:
            return
        selfn = f.node.args.args[0].arg if f.node.args.args else "self"
        for call in [n for n in own_nodes(f.node) if isinstance(n, ast.Call)]:
            fn = call.func
            # helper of the same class, or a method of the facade reached through an attribute that holds it (self._md.helper())
            owner_cls = None
            if isinstance(fn, ast.Attribute) and isinstance(fn.value, ast.Name) and fn.value.id == selfn and f.cls:
                owner_cls = f.cls
            elif isinstance(fn, ast.Attribute) and isinstance(fn.value, ast.Attribute) and fn.attr not in RULER_OPS:
                t_ = self.c.tf.scope(f).type(fn.value)
                if isinstance(t_, str) and t_.split("@")[0] == "MarkdownIt":
                    owner_cls = "MarkdownIt"
            if owner_cls:
                g = self.c.p.method(owner_cls, fn.attr)
                if g is not None and g is not f and fn.attr not in FACADE and not g.is_property:
                    params = [a.arg for a in g.node.args.args[1:]]
                    nb: dict[str, ast.AST] = {}
                    for pname, a in zip(params, call.args):
                        nb[pname] = self._const(a, binds)
                    for k in call.keywords:
                        if k.arg:
                            nb[k.arg] = self._const(k.value, binds)
                    if any(isinstance(y, (ast.Yield, ast.YieldFrom)) for y in own_nodes(g.node)):
                        continue          # generator helpers are followed where they are iterated
                    self.collect(g, nb, depth + 1)
                    continue
            target = None
            op = None
            if isinstance(fn, ast.Attribute) and fn.attr in RULER_OPS:
                target, op = fn.value, fn.attr
            elif isinstance(fn, ast.Call) and isinstance(fn.func, ast.Name) and fn.func.id == "getattr" and len(fn.args) == 2:
                # getattr(<ruler>, verb)(names, True) with verb bound to a literal by the caller
                nm = self._const(fn.args[1], binds)
                if isinstance(nm, ast.IfExp):
                    t = self._const(nm.test, binds)
                    if isinstance(t, ast.Constant):
                        nm = nm.body if t.value else nm.orelse
                if isinstance(nm, ast.Constant) and nm.value in RULER_OPS:
                    target, op = fn.args[0], nm.value
            elif isinstance(fn, ast.Name):
                # switch = ruler.enable if enabled else ruler.disable   (the definitions that reach this call)
                from ..reach import Reaching
                rdc = self.__dict__.setdefault("_rd", {})
                if f not in rdc:
                    rdc[f] = Reaching(self.c.cfg(f))
                reach_defs = [d_.value for d_ in rdc[f].at_ast(call, fn.id) if d_.kind == "assign" and d_.value is not None]
                multi = []
                for d in (reach_defs or self._defs(f, fn.id)):
                    dd = d
                    if isinstance(dd, ast.IfExp):
                        t = self._const(dd.test, binds)
                        if isinstance(t, ast.Constant):
                            dd = dd.body if t.value else dd.orelse
                    if isinstance(dd, ast.Attribute) and dd.attr in RULER_OPS:
                        target, op = dd.value, dd.attr
                    elif isinstance(dd, ast.Call) and isinstance(dd.func, ast.Name) and dd.func.id == "getattr" and len(dd.args) == 2:
                        nm = self._const(dd.args[1], binds)
                        if isinstance(nm, ast.IfExp):
                            t = self._const(nm.test, binds)
                            if isinstance(t, ast.Constant):
                                nm = nm.body if t.value else nm.orelse
                        if isinstance(nm, ast.Constant) and nm.value in RULER_OPS:
                            target, op = dd.args[0], nm.value
                    if target is not None and op is not None:
                        multi.append((target, op))
                if len(multi) > 1:
                    a0 = self._const(call.args[0], binds) if call.args else None
                    for (tg_, op_) in multi:
                        for rname in sorted(self.rulers(f, tg_, binds, call)):
                            self.out.append((rname, op_, U(a0) if a0 is not None else "", call, f))
                    continue
            if target is None or op is None:
                continue
            rs = self.rulers(f, target, binds, call)
            if not (rs - {"?"}) and "?" in rs and not any(x in U(target) for x in ("ruler",)) and not isinstance(target, ast.Name):
                continue
            a0 = self._const(call.args[0], binds) if call.args else None
            for rname in sorted(rs):
                self.out.append((rname, op, U(a0) if a0 is not None else "", call, f))


def _ctx_class_methods(c: Ctx, f: Func) -> list[Func]:
    """If f returns an instance of a package class that implements the context-manager protocol: that class's __init__,
    __enter__ and __exit__."""
    out: list[Func] = []
    for n in own_nodes(f.node):
        if isinstance(n, ast.Return) and isinstance(n.value, ast.Call):
            r_ = c.p.resolve(f.module, n.value.func) if isinstance(n.value.func, (ast.Name, ast.Attribute)) else None
            methods = getattr(r_, "methods", None)
            if isinstance(methods, dict) and "__exit__" in methods:
                out += [methods[k] for k in ("__init__", "__enter__", "__exit__") if k in methods]
    return out


def rule_fanout(c: Ctx) -> RuleResult:
    r = RuleResult("FANOUT", "each rule-management method of the facade applies the same operation, with the same request, to all four "
                             "rulers (core, block, inline, inline post-processing)")
    for mname, (op, same_arg) in FACADE.items():
        f = c.p.func(f"main.py:MarkdownIt.{mname}")
        r.functions += 1
        ops = _Ops(c)
        ops.collect(f, {})
        for g in _ctx_class_methods(c, f):
            # a context manager written as a class: what its __exit__ (and __enter__) do belongs to the facade method
            ops.collect(g, {})
        mine = [o for o in ops.out if o[1] == op]
        switching = {"enable", "disable", "enableOnly"}
        others = [o for o in ops.out if o[1] != op and o[1] in switching and op in switching]
        cover = {o[0] for o in mine}
        key = f"{f.short}|{op}"
        if "?" in cover:
            bad = next(o for o in mine if o[0] == "?")
            r.add(key, c.where(bad[4], bad[3]), f.short, U(bad[3])[:70], "violation",
                  f"a `{op}` call has a receiver that cannot be resolved to one of the four rulers")
            continue
        missing = sorted(RULERS - cover)
        if missing or others:
            why = (f"rulers {missing} are not reached by `{op}`" if missing else "") + \
                  ("; " if missing and others else "") + \
                  (f"`{U(others[0][3].func)}` ({others[0][1]}) is used where `{op}` is applied to the other rulers" if others else "")
            anchor = others[0] if others else None
            r.add(key, c.where(anchor[4], anchor[3]) if anchor else c.where(f, f.node), f.short, f"{op} on the four rulers", "violation",
                  why + ": a rule registered in several rulers (emphasis, strikethrough, linkify) would be switched in one and stay "
                  "as it was in another")
            continue
        if same_arg:
            pname = f.node.args.args[1].arg
            args = {o[2] for o in mine}
            if args != {pname}:
                r.add(key, c.where(f, f.node), f.short, f"{op} on the four rulers", "violation",
                      f"the rulers are asked about different name lists {sorted(args)} (expected the caller's `{pname}` everywhere): a "
                      f"name found in one ruler is no longer applied to the others")
                continue
            funcs = {o[4] for o in mine} | {f}
            bad_store = None
            for g in funcs:
                gp = pname if g is f else None
                names_in_g = {pname}
                for n in own_nodes(g.node):
                    if isinstance(n, (ast.Assign, ast.AugAssign)):
                        tg = n.targets if isinstance(n, ast.Assign) else [n.target]
                        for t in tg:
                            if isinstance(t, ast.Name) and t.id in {a.arg for a in g.node.args.args} and any(o[4] is g and U(o[3].args[0]) == t.id for o in mine if o[3].args):
                                ok_norm = isinstance(n, ast.Assign) and isinstance(n.value, ast.List) and len(n.value.elts) == 1 and U(n.value.elts[0]) == t.id
                                if not ok_norm:
                                    bad_store = (g, n)
            if bad_store:
                r.add(key, c.where(bad_store[0], bad_store[1]), f.short, U(bad_store[1])[:70], "violation",
                      f"the name list is rewritten inside the method: the four rulers do not receive the same request")
                continue
        r.add(key, c.where(f, f.node), f.short, f"{op} on the four rulers", "discharged",
              f"`{op}` reaches core, block, inline and inline2" + (" with the caller's name list" if same_arg else "") +
              (" (through " + ", ".join(sorted({o[4].short for o in mine if o[4] is not f})) + ")" if any(o[4] is not f for o in mine) else ""))
    # reset_rules: the snapshot comes from get_active_rules and each ruler gets its own chain's list back
    f = c.p.func("main.py:MarkdownIt.reset_rules")
    snap = [n for g in [f] + _ctx_class_methods(c, f) for n in own_nodes(g.node)
            if isinstance(n, ast.Assign) and isinstance(n.value, ast.Call) and U(n.value.func).endswith("get_active_rules")]
    r.add(f"{f.short}|snapshot", c.where(f, snap[0] if snap else f.node), f.short, U(snap[0]) if snap else "-", "discharged" if snap else "violation",
          "the state restored on exit is the snapshot of get_active_rules() taken on entry" if snap else
          "reset_rules does not snapshot get_active_rules() on entry")
    r.floor = 6
    return r


# ------------------------------------------------------------------------------------------------ OPTKEY
def rule_optkey(c: Ctx) -> RuleResult:
    r = RuleResult("OPTKEY", "item access, attribute read and attribute write of an option hit one and the same cell of the backing dict")
    ci = c.p.cls("OptionsDict")
    init = ci.methods.get("__init__")
    if init is None:
        raise AnchorError("OptionsDict.__init__ not found")
    # backing attribute
    backing = None
    for n in own_nodes(init.node):
        if isinstance(n, ast.Assign) and len(n.targets) == 1 and isinstance(n.targets[0], ast.Attribute) and U(n.targets[0].value) == "self":
            backing = n.targets[0].attr
    if backing is None:
        raise AnchorError("OptionsDict.__init__ stores no backing dict")
    b = f"self.{backing}"
    for m, want in (("__getitem__", "read"), ("__setitem__", "write"), ("__delitem__", "del"), ("__iter__", "iter"), ("__len__", "len")):
        f = ci.methods.get(m)
        ok = f is not None and any(isinstance(x, ast.Attribute) and U(x) == b for x in ast.walk(f.node))
        r.add(f"OptionsDict.{m}", c.where(f, f.node) if f else "markdown_it/utils.py:0", f"OptionsDict.{m}", m, "discharged" if ok else "violation",
              f"uses {b}" if ok else f"OptionsDict.{m} is missing or does not use the backing dict {b}")
    generic_get = ci.methods.get("__getattr__")
    generic_set = ci.methods.get("__setattr__")

    def factory_form(k: str) -> tuple[bool, bool]:
        """`k = make_property("k", ...)` in the class body, where make_property returns property(getter, setter) whose nested
        getter returns self.<backing>[name] and whose setter stores self.<backing>[name] = value, name being its parameter."""
        for st in ci.node.body:
            if isinstance(st, ast.Assign) and len(st.targets) == 1 and isinstance(st.targets[0], ast.Name) and st.targets[0].id == k \
                    and isinstance(st.value, ast.Call) and isinstance(st.value.func, ast.Name):
                fac = c.p.resolve_name(ci.module, st.value.func.id)
                if not isinstance(fac, Func):
                    continue
                params = [a.arg for a in fac.node.args.args]
                if not params:
                    continue
                a0 = st.value.args[0] if st.value.args else next((kw.value for kw in st.value.keywords if kw.arg == params[0]), None)
                if not (isinstance(a0, ast.Constant) and a0.value == k):
                    return False, False
                nested = {n.name: n for n in fac.node.body if isinstance(n, ast.FunctionDef)}
                rets = [n for n in fac.node.body if isinstance(n, ast.Return) and isinstance(n.value, ast.Call) and U(n.value.func) == "property"]
                if len(rets) != 1:
                    return False, False
                pa = rets[0].value.args
                gfn = nested.get(pa[0].id) if pa and isinstance(pa[0], ast.Name) else None
                sfn = nested.get(pa[1].id) if len(pa) > 1 and isinstance(pa[1], ast.Name) else None
                okg_ = oks_ = False
                if gfn is not None and gfn.args.args:
                    me = gfn.args.args[0].arg
                    rr = [n for n in ast.walk(gfn) if isinstance(n, ast.Return) and n.value is not None]
                    okg_ = bool(rr) and all(isinstance(x.value, ast.Subscript) and U(x.value.value) == f"{me}.{backing}" and isinstance(x.value.slice, ast.Name)
                                            and x.value.slice.id == params[0] for x in rr)
                if sfn is not None and len(sfn.args.args) > 1:
                    me, vn_ = sfn.args.args[0].arg, sfn.args.args[1].arg
                    sts_ = [n for n in ast.walk(sfn) if isinstance(n, ast.Assign)]
                    oks_ = len(sts_) == 1 and isinstance(sts_[0].targets[0], ast.Subscript) and U(sts_[0].targets[0].value) == f"{me}.{backing}" \
                        and isinstance(sts_[0].targets[0].slice, ast.Name) and sts_[0].targets[0].slice.id == params[0] and U(sts_[0].value) == vn_
                return okg_, oks_
        return False, False
    for k in OPTION_KEYS:
        g, s = ci.methods.get(k), ci.setters.get(k)
        okg = oks = False
        if g is None and s is None:
            okg, oks = factory_form(k)
        if g is not None and g.is_property:
            rets = [n for n in own_nodes(g.node) if isinstance(n, ast.Return) and n.value is not None]
            okg = bool(rets) and all(isinstance(x.value, ast.Subscript) and U(x.value.value) == b and isinstance(x.value.slice, ast.Constant)
                                     and x.value.slice.value == k for x in rets)
        elif generic_get is not None and not okg:
            okg = any(isinstance(x, ast.Subscript) and U(x.value) == b for x in ast.walk(generic_get.node))
        if s is not None:
            sts = [n for n in own_nodes(s.node) if isinstance(n, ast.Assign)]
            vname = s.node.args.args[1].arg if len(s.node.args.args) > 1 else "value"
            oks = len(sts) == 1 and isinstance(sts[0].targets[0], ast.Subscript) and U(sts[0].targets[0].value) == b \
                and isinstance(sts[0].targets[0].slice, ast.Constant) and sts[0].targets[0].slice.value == k and U(sts[0].value) == vname
        elif generic_set is not None and not oks:
            oks = any(isinstance(n, ast.Assign) and isinstance(n.targets[0], ast.Subscript) and U(n.targets[0].value) == b
                      for n in own_nodes(generic_set.node))
        where = c.where(g, g.node) if g is not None else c.where(init, init.node)
        r.add(f"OptionsDict.{k}|get", where, f"OptionsDict.{k}", f"options.{k}", "discharged" if okg else "violation",
              f"attribute read returns {b}['{k}']" if okg else
              f"attribute read of `{k}` does not return {b}['{k}']: md.options.{k} and md.options['{k}'] can disagree")
        r.add(f"OptionsDict.{k}|set", where, f"OptionsDict.{k}", f"options.{k} = v", "discharged" if oks else "violation",
              f"attribute write stores into {b}['{k}']" if oks else
              f"attribute assignment `md.options.{k} = v` does not store into {b}['{k}'] (no setter / no __setattr__ route): the rules, "
              f"which read {b} through item access, keep seeing the old value")
    # MarkdownIt.set wraps in OptionsDict
    f = c.p.func("main.py:MarkdownIt.set")
    ok = any(isinstance(n, ast.Assign) and U(n.targets[0]) == "self.options" and isinstance(n.value, ast.Call) and U(n.value.func) == "OptionsDict"
             for n in own_nodes(f.node))
    r.add("MarkdownIt.set", c.where(f, f.node), f.short, "self.options = OptionsDict(options)", "discharged" if ok else "violation",
          "constructor options are wrapped in an OptionsDict" if ok else "MarkdownIt.set does not store an OptionsDict")
    r.floor = 20
    return r


# ------------------------------------------------------------------------------------------------ TRIG
def _edge_dominated(cfg: CFG, test: Node, label: str, target: Node) -> bool:
    """Is `target` reachable from the entry only through the edge test --label--> ?"""
    seen: set[int] = set()
    stack = [cfg.entry]
    while stack:
        n = stack.pop()
        if n.id in seen:
            continue
        seen.add(n.id)
        if n is target:
            return False
        for (m, l) in n.succ:
            if n is test and l == label:
                continue
            if l == "exc":
                continue
            stack.append(m)
    return True


def _effects(c: Ctx, f: Func, cfg: CFG) -> list[tuple[Node, str]]:
    """CFG nodes of f that have an observable effect: pushes, stores below the state parameter, `return True`."""
    st = f.node.args.args[0].arg
    out: list[tuple[Node, str]] = []
    for n in cfg.nodes:
        if n.ast is None or n.kind not in ("stmt", "test", "for", "with"):
            continue
        for root in CFG.roots(n):
            for x in ast.walk(root):
                if isinstance(x, ast.Call):
                    cs = c.cg.site_of.get(x)
                    if cs is not None and any(g.name in ("push", "pushPending") for g in cs.callees):
                        out.append((n, "push " + U(x)[:40]))
                    elif isinstance(x.func, ast.Attribute) and x.func.attr in ("append", "extend", "insert", "pop", "update", "setdefault"):
                        b = x.func.value
                        while isinstance(b, (ast.Attribute, ast.Subscript)):
                            b = b.value
                        if isinstance(b, ast.Name) and b.id == st:
                            out.append((n, "mutation " + U(x)[:40]))
        a = n.ast
        if n.kind == "stmt":
            tg: list[ast.AST] = []
            if isinstance(a, ast.Assign):
                tg = list(a.targets)
            elif isinstance(a, (ast.AugAssign, ast.AnnAssign)):
                tg = [a.target]
            for t in tg:
                b = t
                while isinstance(b, (ast.Attribute, ast.Subscript)):
                    b = b.value
                if isinstance(b, ast.Name) and b.id == st and not isinstance(t, ast.Name):
                    out.append((n, "store " + U(t)[:40]))
            if isinstance(a, ast.Return) and isinstance(a.value, ast.Constant) and a.value.value is True:
                out.append((n, "return True"))
            elif isinstance(a, ast.Return) and a.value is not None and not isinstance(a.value, ast.Constant):
                out.append((n, "return " + U(a.value)[:30]))
    return out


def rule_trig(c: Ctx) -> RuleResult:
    r = RuleResult("TRIG", "every effect of an optional extension (pushes, state stores, a reported match) is dominated by the test for "
                           "its trigger characters")
    specs = [
        ("rules_block/table.py:table", [("contains", "|")]),
        ("rules_inline/strikethrough.py:tokenize", [("cmp", "~"), ("minlen", 2)]),
    ]
    for qual, trigs in specs:
        f = c.p.func(qual)
        cfg = c.cfg(f)
        r.functions += 1
        edges: list[tuple[Node, str, str]] = []
        for n in cfg.nodes:
            if n.kind != "test" or n.ast is None:
                continue
            a = n.ast
            for (kind, lit) in trigs:
                if kind == "contains" and isinstance(a, ast.Compare) and len(a.ops) == 1 and isinstance(a.left, ast.Constant) and a.left.value == lit:
                    if isinstance(a.ops[0], ast.NotIn):
                        edges.append((n, "F", f"'{lit}' in {U(a.comparators[0])}"))
                    elif isinstance(a.ops[0], ast.In):
                        edges.append((n, "T", f"'{lit}' in {U(a.comparators[0])}"))
                if kind == "cmp" and isinstance(a, ast.Compare) and len(a.ops) == 1 and isinstance(a.comparators[0], ast.Constant) \
                        and a.comparators[0].value == lit:
                    if isinstance(a.ops[0], ast.NotEq):
                        edges.append((n, "F", f"{U(a.left)} == '{lit}'"))
                    elif isinstance(a.ops[0], ast.Eq):
                        edges.append((n, "T", f"{U(a.left)} == '{lit}'"))
                if kind == "minlen":
                    from ..syn import cmp_oriented
                    co = cmp_oriented(a, lambda e: isinstance(e, (ast.Name, ast.Attribute)))
                    if co is not None and isinstance(co[2], ast.Constant) and co[2].value == lit and isinstance(co[0], (ast.Name, ast.Attribute)):
                        if co[1] is ast.Lt:
                            edges.append((n, "F", f"<run length> >= {lit}"))
                        elif co[1] is ast.GtE:
                            edges.append((n, "T", f"<run length> >= {lit}"))
        kinds_found = {e[2].split(" ")[0] if False else e[2] for e in edges}
        if len(edges) < len(trigs):
            r.add(f"{f.short}|trigger-test", c.where(f, f.node), f.short, "trigger test", "violation",
                  f"the trigger test(s) {trigs} of the extension were not found: its effects are not guarded by the trigger characters")
            continue
        for (n, what) in _effects(c, f, cfg):
            missing = []
            for (kind, lit) in trigs:
                cands = [e for e in edges if (kind == "contains" and e[2].startswith(f"'{lit}' in")) or
                         (kind == "cmp" and e[2].endswith(f"== '{lit}'")) or (kind == "minlen" and e[2].endswith(f">= {lit}"))]
                if not any(_edge_dominated(cfg, t, lab, n) for (t, lab, _) in cands):
                    missing.append(cands[0][2] if cands else str((kind, lit)))
            key = f"{f.short}|{what.split(' ')[0]}|{alpha(f, n.ast)[:50]}"
            if not missing:
                r.add(key, c.where(f, n.ast), f.short, what, "discharged", "dominated by the trigger test(s) " + ", ".join(t[2] for t in edges))
            else:
                r.add(key, c.where(f, n.ast), f.short, what, "violation",
                      f"this effect can happen without the trigger test {missing} having succeeded: input without the extension's trigger "
                      f"characters would parse differently with the extension switched on")
    r.floor = 20
    return r


# ------------------------------------------------------------------------------------------------ GATE
def rule_gate(c: Ctx) -> RuleResult:
    r = RuleResult("GATE", "statements that depend on option inline_definitions only push / fill the definition token, those on store_labels "
                           "only write token.meta; the code-indent limit is conjoined with the code rule being enabled")
    found = {"inline_definitions": 0, "store_labels": 0}
    for f in sorted(c.cg.parse_phase(), key=lambda x: x.qual):
        for n in own_nodes(f.node):
            if not isinstance(n, ast.If):
                continue
            keys = {option_read_key(x) for x in ast.walk(n.test)} & set(found)
            if not keys:
                continue
            k = sorted(keys)[0]
            found[k] += 1
            bad = ""
            toks: set[str] = set()
            body = list(n.body)
            hf = f
            if k == "inline_definitions" and len(body) == 1 and isinstance(body[0], ast.Expr) and isinstance(body[0].value, ast.Call):
                # the gated work moved into a private helper: its statements are held to the same rule
                cs0 = c.cg.site_of.get(body[0].value)
                if cs0 is not None and len(cs0.callees) == 1 and cs0.kind in ("direct", "method") and cs0.callees[0].module is f.module:
                    hf = cs0.callees[0]
                    body = [s_ for s_ in hf.node.body if not (isinstance(s_, ast.Expr) and isinstance(s_.value, ast.Constant))]
            for s in body:
                if k == "inline_definitions":
                    if isinstance(s, ast.Assign) and len(s.targets) == 1 and isinstance(s.targets[0], ast.Name) and isinstance(s.value, ast.Call):
                        cs = c.cg.site_of.get(s.value)
                        ks = literal_strs(s.value.args[0]) if s.value.args else None
                        if cs is not None and any(g_.name == "push" for g_ in cs.callees) and ks == ["definition"]:
                            toks.add(s.targets[0].id)
                            continue
                    if isinstance(s, ast.Assign) and all(isinstance(t, ast.Attribute) and isinstance(t.value, ast.Name) and t.value.id in toks
                                                         for t in s.targets):
                        continue
                    bad = U(s)[:70]
                    break
                else:
                    if isinstance(s, ast.Assign) and all(isinstance(t, ast.Subscript) and isinstance(t.value, ast.Attribute) and t.value.attr == "meta"
                                                         for t in s.targets):
                        continue
                    bad = U(s)[:70]
                    break
            if n.orelse:
                bad = bad or "an else branch: behaviour with the option off differs from 'do nothing'"
            r.add(f"{f.short}|{k}", c.where(f, n), f.short, f"if {U(n.test)[:60]}: ...", "discharged" if not bad else "violation",
                  (f"under option {k} only " + ("a `definition` token is pushed and filled" if k == "inline_definitions" else "token.meta is written"))
                  if not bad else f"under option {k} the code also does `{bad}`: the option would change more than its documented addition")
    for k, v in found.items():
        if v == 0:
            raise AnchorError(f"no statement gated by option {k} found")
    # is_code_block
    f = c.p.func("rules_block/state_block.py:StateBlock.is_code_block")
    rets = [n for n in own_nodes(f.node) if isinstance(n, ast.Return) and n.value is not None]
    from ..boolsim import simulate_return
    # with the code rule off the function must return False whatever the indentation comparison says
    ok = True
    for cmp_val in (True, False):
        def atom(e: ast.AST, cmp_val=cmp_val):
            if U(e) == "self._code_enabled":
                return False
            if isinstance(e, ast.Compare):
                return cmp_val
            return None
        val, how = simulate_return(c.cfg(f), atom)
        if how != "ret" or val is not False:
            ok = False
    # and with the rule on it must not be constant
    def atom_on(e: ast.AST):
        if U(e) == "self._code_enabled":
            return True
        if isinstance(e, ast.Compare):
            return True
        return None
    val_on, _ = simulate_return(c.cfg(f), atom_on)
    ok = ok and val_on is True
    init = c.p.func("rules_block/state_block.py:StateBlock.__init__")
    src = [n for n in own_nodes(init.node) if isinstance(n, ast.Assign) and U(n.targets[0]) == "self._code_enabled"]
    ok2 = bool(src) and "get_active_rules" in U(src[0].value) and "'code'" in U(src[0].value) and "block" in U(src[0].value)
    r.add("is_code_block", c.where(f, f.node), f.short, U(rets[0])[:80] if rets else "-", "discharged" if ok and ok2 else "violation",
          "the 4-column limit applies only while `code` is among the block ruler's active rules" if ok and ok2 else
          "is_code_block does not conjoin the code rule being enabled (read from the block ruler's active rules): with `code` disabled, "
          "indented text would still be refused by the other rules")
    r.floor = 3
    return r


# ------------------------------------------------------------------------------------------------ PRODUCERS
PRODUCERS: dict[str, set[str]] = {
    "blockquote_open": {"block:blockquote"}, "blockquote_close": {"block:blockquote"},
    "code_block": {"block:code"}, "fence": {"block:fence"},
    "heading_open": {"block:heading", "block:lheading"}, "heading_close": {"block:heading", "block:lheading"},
    "hr": {"block:hr"}, "html_block": {"block:html_block"},
    "ordered_list_open": {"block:list"}, "ordered_list_close": {"block:list"}, "bullet_list_open": {"block:list"},
    "bullet_list_close": {"block:list"}, "list_item_open": {"block:list"}, "list_item_close": {"block:list"},
    "paragraph_open": {"block:paragraph"}, "paragraph_close": {"block:paragraph"},
    "definition": {"block:reference"},
    "table_open": {"block:table"}, "table_close": {"block:table"}, "thead_open": {"block:table"}, "thead_close": {"block:table"},
    "tbody_open": {"block:table"}, "tbody_close": {"block:table"}, "tr_open": {"block:table"}, "tr_close": {"block:table"},
    "th_open": {"block:table"}, "th_close": {"block:table"}, "td_open": {"block:table"}, "td_close": {"block:table"},
    "inline": {"block:paragraph", "block:heading", "block:lheading", "block:table", "core:block"},
    "link_open": {"inline:link", "inline:autolink", "inline:linkify", "core:linkify"},
    "link_close": {"inline:link", "inline:autolink", "inline:linkify", "core:linkify"},
    "image": {"inline:image"}, "code_inline": {"inline:backticks"},
    "text_special": {"inline:escape", "inline:entity"},
    "hardbreak": {"inline:newline", "inline:escape"}, "softbreak": {"inline:newline"},
    "html_inline": {"inline:html_inline"},
    "em_open": {"inline2:emphasis"}, "em_close": {"inline2:emphasis"}, "strong_open": {"inline2:emphasis"}, "strong_close": {"inline2:emphasis"},
    "s_open": {"inline2:strikethrough"}, "s_close": {"inline2:strikethrough"},
    "text": {"inline:emphasis", "inline:strikethrough", "inline:autolink", "inline:linkify", "core:linkify", "core:text_join", "<pending>"},
}


def _reach_nodispatch(c: Ctx, f: Func) -> set[Func]:
    seen: set[Func] = set()
    stack = [f]
    while stack:
        g = stack.pop()
        if g in seen:
            continue
        seen.add(g)
        for cs in c.cg.sites.get(g, []):
            if cs.kind.startswith("dispatch:") or cs.kind == "render-dispatch":
                continue
            stack.extend(cs.callees)
    return seen


def rule_producers(c: Ctx) -> RuleResult:
    r = RuleResult("PRODUCERS", "token kind -> producing rules (computed from push / Token literals and the call graph) equals the reviewed "
                                "table; rule functions are reached only through rule dispatch; the zero preset can only produce paragraph and text")
    sites = [ts for ts in token_sites(c) if ts.func in c.cg.parse_phase()]
    by_func: dict[Func, set[str]] = {}
    pend = c.p.func("rules_inline/state_inline.py:StateInline.pushPending")
    for ts in sites:
        if ts.func.name == "push" and ts.func.cls in ("StateBlock", "StateInline"):
            continue
        for k in ts.kinds or ["?"]:
            by_func.setdefault(ts.func, set()).add(k)
    got: dict[str, set[str]] = {}
    rule_kinds: dict[str, set[str]] = {}
    for reg in c.reg.all_rule_funcs():
        rn = f"{reg.chain}:{reg.name}"
        kinds: set[str] = set()
        for g in _reach_nodispatch(c, reg.func):
            if g is pend:
                continue
            kinds |= by_func.get(g, set())
        rule_kinds[rn] = kinds
        for k in kinds:
            got.setdefault(k, set()).add(rn)
    got.setdefault("text", set()).add("<pending>")
    for k in sorted(set(got) | set(PRODUCERS)):
        g, w = got.get(k, set()), PRODUCERS.get(k, set())
        key = f"kind|{k}"
        if k == "?":
            r.add(key, "markdown_it:0", "-", "token kind", "violation", f"a token kind that is not a literal is produced by {sorted(g)}")
        elif g == w:
            r.add(key, "markdown_it:0", "-", f"{k} <- {sorted(g)}", "discharged", "producers equal the reviewed table")
        elif g - w:
            r.add(key, "markdown_it:0", "-", f"{k} <- {sorted(g)}", "violation",
                  f"kind `{k}` is now also produced by {sorted(g - w)} (reviewed producers: {sorted(w)}): disabling the documented rule(s) no "
                  f"longer removes the construct from the stream")
        else:
            r.add(key, "markdown_it:0", "-", f"{k} <- {sorted(g)}", "discharged",
                  f"producers are a subset of the reviewed table (no longer produced by {sorted(w - g)})")
    # rule functions are called nowhere directly
    by_f = c.reg.by_func()
    for f, regs in sorted(by_f.items(), key=lambda kv: kv[0].qual):
        direct = [cs for cs in c.cg.callers.get(f, []) if not cs.kind.startswith("dispatch:")]
        # emphasis / strikethrough register two functions of one module under one name; a helper call between them is not a bypass
        direct = [cs for cs in direct if cs.caller not in by_f or cs.caller.module is not f.module]
        key = f"direct-call|{f.short}|{f.module.rel}"
        if direct:
            cs = direct[0]
            r.add(key, c.where(cs.caller, cs.node), cs.caller.short, U(cs.node)[:60], "violation",
                  f"rule function {f.short} is called directly, bypassing its ruler: disabling the rule would not stop this call")
        else:
            r.add(key, c.where(f, f.node), f.short, f"callers of {f.short}", "discharged", "reached only through rule dispatch")
    # zero preset closure
    z = presets(c.p).get("zero", {})
    comp = z.get("components", {})
    enabled = set()
    for chain, key in (("core", "rules"), ("block", "rules"), ("inline", "rules"), ("inline2", "rules2")):
        comp_name = "inline" if chain == "inline2" else chain
        names = (comp.get(comp_name) or {}).get(key)
        for reg in c.reg.rules[chain]:
            if names is None or reg.name in names:
                enabled.add(f"{chain}:{reg.name}")
    kinds = set().union(*[rule_kinds.get(rn, set()) for rn in enabled]) | {"text"}
    extra = sorted(kinds - {"paragraph_open", "paragraph_close", "inline", "text"})
    r.add("preset|zero", "markdown_it/presets/zero.py:0", "presets.zero.make", f"kinds producible: {sorted(kinds)}", "discharged" if not extra else "violation",
          "the zero preset's enabled rules can only produce paragraph_open / paragraph_close / inline / text" if not extra else
          f"the zero preset's enabled rules can produce {extra}")
    r.floor = 60
    return r
