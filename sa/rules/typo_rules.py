"""C18 / C19 rule families.

OPTREAD  renderer-only options are read only where documented (xhtmlOut: renderToken / hardbreak / softbreak; breaks:
         softbreak; langPrefix, highlight: fence) and by nothing in the parse phase; the slash spelling hangs on xhtmlOut's
         true branch at every site;
INCLOSE  the inline phase is closed over (content, md, env, token list): nothing reachable from ParserInline.parse sees a
         block / core state;
TYPO     the typographic rules write only `.content` of tokens under a `type == "text"` fact (and outside autolinks for the
         replacements), never restructure a token list or build tokens; replaceAt substitutes exactly one character; its call
         sites pass the apostrophe / configured quote strings at the match position;
ORDER    core pipeline order: inline < replacements, smartquotes < text_join.
"""
from __future__ import annotations

import ast
from typing import Any

from ..cfg import CFG, Node
from ..core import AnchorError, Func, U, own_nodes
from ..ctx import Ctx
from ..dataflow import Problem, solve
from ..reach import Reaching
from ..report import RuleResult, alpha
from ..tokens import option_read_key

RENDER_ONLY = {
    "xhtmlOut": {"renderToken", "hardbreak", "softbreak"},
    "breaks": {"softbreak"},
    "langPrefix": {"fence"},
    "highlight": {"fence"},
}


def _reads(c: Ctx) -> dict[str, list[tuple[Func, ast.AST]]]:
    out: dict[str, list[tuple[Func, ast.AST]]] = {}
    for f in c.p.all_funcs():
        if f.cls == "OptionsDict" or f.module.rel.startswith("cli/"):
            continue
        seen: set[int] = set()
        for n in own_nodes(f.node):
            k = option_read_key(n)
            if k is None:
                continue
            # `options.get` on its own is the bound method; the Call node around it carries the key
            if isinstance(n, ast.Attribute) and k == "get":
                continue
            if isinstance(n, ast.Attribute) and isinstance(f.module.parents.get(n), ast.Attribute):
                pass
            par = f.module.parents.get(n)
            if isinstance(n, ast.Attribute) and isinstance(par, ast.Call) and par.func is n and k not in RENDER_ONLY and k in ("get", "items", "keys", "values", "update"):
                continue
            if id(n) in seen:
                continue
            seen.add(id(n))
            if isinstance(n, ast.Attribute) and isinstance(n.ctx, ast.Store):
                continue
            out.setdefault(k, []).append((f, n))
    return out


def _only_called_from(c: Ctx, f, allowed_funcs: set, depth: int = 0) -> bool:
    """f is a private helper (module function or `_method`) of the renderer module all of whose callers are documented readers
    (or such helpers themselves)."""
    if depth > 2 or f.module.rel != "renderer.py" or not (f.cls is None or f.name.startswith("_")):
        return False
    callers = c.cg.callers.get(f, [])
    if not callers or any(cs.kind not in ("direct", "method") for cs in callers):
        return False
    return all(cs.caller in allowed_funcs or _only_called_from(c, cs.caller, allowed_funcs, depth + 1) for cs in callers)


def rule_optread(c: Ctx) -> RuleResult:
    r = RuleResult("OPTREAD", "renderer-only options (xhtmlOut, breaks, langPrefix, highlight) are read only by their documented render "
                              "methods and by nothing in the parse phase; the self-closing spelling hangs on xhtmlOut's true branch everywhere")
    reads = _reads(c)
    total = sum(len(v) for v in reads.values())
    parse = c.cg.parse_phase()
    rend = c.p.cls("RendererHTML")
    for key, allowed in sorted(RENDER_ONLY.items()):
        sites = reads.get(key, [])
        if not sites:
            r.add(f"{key}|present", "markdown_it/renderer.py:0", "-", f"option {key}", "violation",
                  f"no read of the documented option `{key}` was found: it would be inert")
            continue
        # which render-rule methods can reach a read?
        reader_funcs = {f for (f, _) in sites}
        reaching_methods = set()
        stop = {m for name, m in rend.methods.items() if name in allowed}
        for name, m in rend.methods.items():
            if name == "__init__" or (name.startswith("_") and not name.startswith("__")):
                continue          # a private helper is no entry point: the methods that call it are judged themselves
            if name in allowed:
                if m in reader_funcs or (_reach_nodispatch(c, m) & reader_funcs):
                    reaching_methods.add(name)
                continue
            # a documented reader called from another method is opaque: it is that reader's documented behaviour
            if _reach_nodispatch(c, m, stop) & reader_funcs:
                reaching_methods.add(name)
        for (f, n) in sites:
            where = c.where(f, n)
            keyk = f"{key}|{f.short}"
            if f in parse:
                r.add(keyk, where, f.short, U(f.module.parents.get(n, n))[:70], "violation",
                      f"renderer-only option `{key}` is read in the parse phase: the token stream would depend on it")
            elif f.cls == "RendererHTML" and f.name in allowed:
                r.add(keyk, where, f.short, U(f.module.parents.get(n, n))[:70], "discharged", f"documented reader of `{key}`")
            elif _only_called_from(c, f, {m for name, m in rend.methods.items() if name in allowed}):
                r.add(keyk, where, f.short, U(f.module.parents.get(n, n))[:70], "discharged",
                      f"private helper called only from the documented readers of `{key}` ({sorted(allowed)})")
            elif f.cls == "RendererHTML":
                r.add(keyk, where, f.short, U(f.module.parents.get(n, n))[:70], "violation",
                      f"`{key}` is read by RendererHTML.{f.name}, outside its documented place ({sorted(allowed)})")
            else:
                r.add(keyk, where, f.short, U(f.module.parents.get(n, n))[:70], "violation",
                      f"`{key}` is read outside the renderer's documented methods ({sorted(allowed)})")
        extra = sorted(reaching_methods - allowed - {"render", "renderInline"})
        r.add(f"{key}|methods", "markdown_it/renderer.py:0", "RendererHTML", f"render methods reaching a read of {key}: {sorted(reaching_methods)}",
              "discharged" if not extra else "violation",
              f"only {sorted(allowed)} can reach a read of `{key}`" if not extra else
              f"render method(s) {extra} now reach a read of `{key}` (through a shared helper): the option changes the HTML outside its "
              f"documented place")
    # xhtmlOut: true branch carries the slash
    for (f, n) in reads.get("xhtmlOut", []):
        par = f.module.parents.get(n)
        if isinstance(par, ast.IfExp) and par.test is n:
            a, b = par.body, par.orelse
            sa = [x.value for x in ast.walk(a) if isinstance(x, ast.Constant) and isinstance(x.value, str)]
            sb = [x.value for x in ast.walk(b) if isinstance(x, ast.Constant) and isinstance(x.value, str)]
            ok = any("/" in s for s in sa) and not any("/" in s for s in sb)
            r.add(f"xhtmlOut|spelling|{f.short}", c.where(f, par), f.short, U(par)[:70], "discharged" if ok else "violation",
                  "the self-closing spelling is on the true branch" if ok else
                  "the self-closing `/` spelling is not (only) on xhtmlOut's true branch: this void tag is spelled the opposite way from the others")
    if total < 16:
        raise AnchorError(f"only {total} option reads found in the library (23 were confirmed by reading)")
    r.floor = 10
    return r


def _reach_nodispatch(c: Ctx, f: Func, stop: set[Func] | None = None) -> set[Func]:
    seen: set[Func] = set()
    stack = [f]
    while stack:
        g = stack.pop()
        if g in seen:
            continue
        if stop and g in stop and g is not f:
            continue
        seen.add(g)
        for cs in c.cg.sites.get(g, []):
            if cs.kind.startswith("dispatch:") or cs.kind == "render-dispatch":
                continue
            stack.extend(cs.callees)
    return seen


def rule_inclose(c: Ctx) -> RuleResult:
    r = RuleResult("INCLOSE", "the inline phase sees only (content, md, env, token list): nothing reachable from ParserInline.parse has access "
                              "to a block or core state, so equal content under equal configuration and env gives equal children")
    ipar = c.p.func("parser_inline.py:ParserInline.parse")
    reach = c.cg.reachable([ipar])
    n = 0
    for f in sorted(reach, key=lambda x: x.qual):
        sc = c.tf.scope(f)
        bad = None
        for a in f.node.args.posonlyargs + f.node.args.args + f.node.args.kwonlyargs:
            if sc.env.get(a.arg) in ("StateBlock", "StateCore"):
                bad = f"parameter `{a.arg}` of type {sc.env.get(a.arg)}"
        if bad is None:
            for x in own_nodes(f.node):
                if isinstance(x, (ast.Name, ast.Attribute)) and isinstance(getattr(x, "ctx", None), ast.Load):
                    t = sc.type(x)
                    if t in ("StateBlock", "StateCore"):
                        bad = f"expression `{U(x)}` of type {t}"
                        break
        n += 1
        r.add(f"{f.short}|{f.module.rel}", c.where(f, f.node), f.short, f"def {f.name}", "discharged" if bad is None else "violation",
              "takes and reads no block / core state" if bad is None else
              f"code of the inline phase has access to {bad}: the meaning of inline text could depend on the block that contains it")
    # call sites pass the content of the token they fill
    for cs in c.cg.callers.get(ipar, []):
        a0 = cs.node.args[0] if cs.node.args else None
        ok = a0 is not None and ((isinstance(a0, ast.Attribute) and a0.attr in ("content", "src")) or isinstance(a0, ast.Name))
        r.add(f"{cs.caller.short}|call", c.where(cs.caller, cs.node), cs.caller.short, U(cs.node)[:80], "discharged" if ok else "violation",
              "the inline parser receives the token's content string" if ok else "the inline parser is called on something other than a content string")
    if n < 20:
        raise AnchorError(f"only {n} functions reachable from ParserInline.parse")
    # ---- every core rule that walks the block stream visits *all* of it: in inline mode the only inline token is token 0, at
    #      the end of a document it is the last one - a loop that starts at 1 or stops before the end treats that token differently
    n_loops = 0
    for f in sorted(c.cg.api_phase(), key=lambda x: x.qual):
        if not f.module.rel.startswith("rules_core/"):
            continue
        sc = c.tf.scope(f)
        for lp in own_nodes(f.node):
            if not isinstance(lp, ast.For):
                continue
            how = _stream_iteration(c, f, sc, lp)
            if how is None:
                continue
            n_loops += 1
            ok, text = how
            r.add(f"{f.short}|stream-loop|{alpha(f, lp.iter)[:60]}", c.where(f, lp), f.short, f"for {U(lp.target)} in {U(lp.iter)[:60]}",
                  "discharged" if ok else "violation",
                  f"visits every token of the block stream ({text})" if ok else
                  f"does not visit every token of the block stream ({text}): the inline token of inline mode (index 0) or the last block "
                  f"would be treated differently from the others")
    if n_loops < 4:
        raise AnchorError(f"only {n_loops} loops over the block stream found in the core rules")
    # ---- every inline token is filled by the inline parser itself, on every path through the loop that fills them
    for cs in c.cg.callers.get(ipar, []):
        g = cs.caller
        if not g.module.rel.startswith("rules_core/"):
            continue
        lp = g.module.parents.get(cs.node)
        while lp is not None and not isinstance(lp, (ast.For, ast.While)):
            lp = g.module.parents.get(lp)
        if lp is None:
            continue
        cfg = c.cfg(g)
        head = next((x for x in cfg.nodes if x.kind in ("for", "join") and x.ast is lp), None)
        calls = {x.id for x in cfg.owner(cs.node)}
        ins = {id(x) for x in ast.walk(lp)}
        # from the edge on which the token is known to be an inline token, can the next iteration be reached without the call?
        starts = []
        for x in cfg.nodes:
            if x.kind == "test" and x.ast is not None and id(x.ast) in ins and isinstance(x.ast, ast.Compare) and len(x.ast.ops) == 1 \
                    and isinstance(x.ast.comparators[0], ast.Constant) and x.ast.comparators[0].value == "inline":
                lab = "T" if isinstance(x.ast.ops[0], ast.Eq) else "F"
                starts += [s_ for (s_, l_) in x.succ if l_ == lab]
        seen: set[int] = set()
        stack = list(starts)
        bypass = False
        while stack and head is not None:
            x = stack.pop()
            if x.id in seen or x.id in calls:
                continue
            if x is head:
                bypass = True
                break
            if x.ast is not None and id(x.ast) not in ins:
                continue
            seen.add(x.id)
            stack.extend(s_ for (s_, l_) in x.succ if l_ not in ("exc", "raise"))
        if starts:
            r.add(f"{g.short}|must-parse", c.where(g, cs.node), g.short, U(cs.node)[:80], "violation" if bypass else "discharged",
                  "an inline token can reach the next iteration without its content having been handed to the inline parser: its children "
                  "come from somewhere else (a cache, a copy), so equal content no longer means independently parsed, equal children" if bypass else
                  "every inline token's content is handed to the inline parser on every path")
    r.floor = 30
    return r


def _stream_iteration(c: Ctx, f, sc, lp: ast.For):
    """If the loop ranges over the block stream `<StateCore>.tokens` (directly, by index, or through a local alias): (covers all?, how)."""
    def is_stream(e: ast.AST) -> bool:
        if isinstance(e, ast.Attribute) and e.attr == "tokens" and sc.type(e.value) == "StateCore":
            return True
        if isinstance(e, ast.Name):
            defs = [d.value for d in own_nodes(f.node) if isinstance(d, ast.Assign) and any(isinstance(t, ast.Name) and t.id == e.id for t in d.targets)]
            return len(defs) == 1 and is_stream(defs[0])
        return False
    it = lp.iter
    # for tok in stream / stream[:] / list(stream) / reversed(stream) / enumerate(stream)
    e = it
    wrappers = []
    while True:
        if isinstance(e, ast.Call) and isinstance(e.func, ast.Name) and e.func.id in ("list", "reversed", "enumerate", "tuple", "iter") and e.args:
            wrappers.append(e.func.id)
            e = e.args[0]
        elif isinstance(e, ast.Subscript) and isinstance(e.slice, ast.Slice):
            sl = e.slice
            full = (sl.lower is None or (isinstance(sl.lower, ast.Constant) and sl.lower.value in (0, None))) and sl.upper is None \
                and (sl.step is None or (isinstance(sl.step, ast.UnaryOp) and U(sl.step) == "-1") or (isinstance(sl.step, ast.Constant) and sl.step.value in (1, None)))
            if not full and is_stream(e.value):
                return (False, f"slice `{U(e)}`")
            e = e.value
        else:
            break
    if is_stream(e):
        return (True, "iterates the list itself")
    # for i in range(...len(stream)...)
    if isinstance(it, ast.Call) and isinstance(it.func, ast.Name) and it.func.id == "reversed" and it.args:
        it = it.args[0]
    if isinstance(it, ast.Subscript) and isinstance(it.slice, ast.Slice) and U(it.slice) == "::-1":
        it = it.value
    if isinstance(it, ast.Call) and isinstance(it.func, ast.Name) and it.func.id == "range":
        lens = [x for x in ast.walk(it) if isinstance(x, ast.Call) and isinstance(x.func, ast.Name) and x.func.id == "len" and x.args and is_stream(x.args[0])]
        if not lens:
            return None
        L = U(lens[0])
        a = [U(x) for x in it.args]
        if a == [L] or a == ["0", L] or a == ["0", L, "1"]:
            return (True, f"range over all indices `{U(it)}`")
        if a == [f"{L} - 1", "-1", "-1"]:
            return (True, f"range over all indices, backwards `{U(it)}`")
        return (False, f"`{U(it)}` leaves out an end of the stream")
    return None


# ------------------------------------------------------------------------------------------------ TYPO
def rule_typo(c: Ctx) -> RuleResult:
    _CTX_FOR_COUNTERS[:] = [c]
    r = RuleResult("TYPO", "the typographic rules write only `.content` of text tokens (outside autolinks for the replacements), never "
                           "restructure a token list or build tokens; replaceAt substitutes exactly one character")
    mods = ("rules_core/replacements.py", "rules_core/smartquotes.py")
    funcs = [f for f in c.p.all_funcs() if f.module.rel in mods]
    if len(funcs) < 6:
        raise AnchorError(f"only {len(funcs)} functions in the typographic rule modules")
    for f in sorted(funcs, key=lambda x: x.qual):
        r.functions += 1
        sc = c.tf.scope(f)
        cfg, res = c.facts(f)
        rd = None
        for n in own_nodes(f.node):
            # stores
            tg: list[ast.AST] = []
            if isinstance(n, ast.Assign):
                tg = list(n.targets)
            elif isinstance(n, (ast.AugAssign, ast.AnnAssign)):
                tg = [n.target]
            for t in tg:
                if isinstance(t, ast.Attribute) and sc.type(t.value) == "Token":
                    key = f"{f.short}|store|{alpha(f, t)}|{alpha(f, n)[:40]}"
                    if t.attr != "content":
                        r.add(key, c.where(f, n), f.short, U(n)[:70], "violation",
                              f"a typographic rule writes `{U(t)}`: only the content of text tokens may change, never structure or other fields")
                        continue
                    recv = t.value
                    ok, why = _text_guard(c, f, n, recv, cfg, res)
                    if ok:
                        ok2 = _autolink_guard_any(c, f, n, recv, cfg, res)
                        if not ok2:
                            ok, why = False, "the store is not dominated by the autolink counter being zero: the visible text of an autolink would be rewritten"
                    r.add(key, c.where(f, n), f.short, U(n)[:70], "discharged" if ok else "violation",
                          why if ok else why + " - a non-text token (code, html, link destination ...) could be rewritten")
                elif isinstance(t, ast.Subscript) and isinstance(sc.type(t.value), tuple) and sc.type(t.value)[0] == "list" \
                        and sc.type(t.value)[1] == "Token":
                    r.add(f"{f.short}|list-store|{alpha(f, n)[:50]}", c.where(f, n), f.short, U(n)[:70], "violation",
                          "a typographic rule replaces an element of a token list: the stream's shape must not change")
            if isinstance(n, ast.Call):
                cs = c.cg.site_of.get(n)
                if cs is not None and cs.kind == "ctor" and cs.detail == "Token":
                    r.add(f"{f.short}|ctor|{alpha(f, n)[:50]}", c.where(f, n), f.short, U(n)[:70], "violation",
                          "a typographic rule constructs a token: the stream's shape must not change")
                if isinstance(n.func, ast.Attribute) and n.func.attr in ("append", "insert", "pop", "remove", "extend", "clear", "sort", "reverse"):
                    bt = sc.type(n.func.value)
                    if isinstance(bt, tuple) and bt[0] == "list" and bt[1] == "Token":
                        r.add(f"{f.short}|list-mut|{alpha(f, n)[:50]}", c.where(f, n), f.short, U(n)[:70], "violation",
                              "a typographic rule restructures a token list: the stream's shape must not change")
            if isinstance(n, ast.Delete):
                # deleting from a local bookkeeping list (the quote stack) is fine; from a token list, a token, or anything the
                # rule did not build itself, it is not
                def own_list(t: ast.AST) -> bool:
                    b = t.value if isinstance(t, ast.Subscript) else None
                    if not isinstance(b, ast.Name) or not sc.is_local(b.id) or b.id in {a.arg for a in f.node.args.args + f.node.args.kwonlyargs}:
                        return False
                    bt = sc.type(b)
                    if isinstance(bt, tuple) and bt[0] == "list" and len(bt) > 1 and bt[1] == "Token":
                        return False
                    return c.eff.fresh_local(f, b.id)
                if all(own_list(t) for t in n.targets):
                    continue
                r.add(f"{f.short}|del|{alpha(f, n)[:50]}", c.where(f, n), f.short, U(n)[:70], "violation", "a typographic rule deletes from a structure")
        # autolink bookkeeping cannot be bypassed
        _bookkeeping(c, r, f)
    # replaceAt body
    ra = c.p.func("rules_core/smartquotes.py:replaceAt")
    s_, i_, ch_ = [a.arg for a in ra.node.args.args[:3]]
    rets = [n for n in own_nodes(ra.node) if isinstance(n, ast.Return) and n.value is not None]
    want = {f"{s_}[:{i_}] + {ch_} + {s_}[{i_} + 1:]", f"{s_}[0:{i_}] + {ch_} + {s_}[{i_} + 1:]", f"{s_}[:{i_}] + {ch_} + {s_}[1 + {i_}:]"}
    for rt in rets:
        txt = U(rt.value)
        ok = txt in want or (isinstance(rt.value, ast.JoinedStr) and U(rt.value) == f"f'{{{s_}[:{i_}]}}{{{ch_}}}{{{s_}[{i_} + 1:]}}'")
        r.add("replaceAt|body", c.where(ra, rt), ra.short, txt[:80], "discharged" if ok else "violation",
              "exactly the one character at `index` is replaced" if ok else
              "replaceAt does not return prefix + replacement + the text after exactly ONE character: with a quote string of length != 1 "
              "neighbouring characters are swallowed or duplicated")
    # replaceAt call sites
    pi0 = c.p.func("rules_core/smartquotes.py:process_inlines")
    ncalls = 0
    sq_sites = [(g, cs) for g in sorted(c.p.funcs.values(), key=lambda x: x.qual) if g.module is pi0.module
                for cs in c.cg.sites.get(g, []) if ra in cs.callees]
    rd_of: dict = {}
    for pi, cs in sq_sites:
        if pi not in rd_of:
            rd_of[pi] = Reaching(c.cfg(pi))
        rd = rd_of[pi]
        if ra not in cs.callees:
            continue
        ncalls += 1
        call = cs.node
        rep = call.args[2] if len(call.args) > 2 else None
        ok_rep = False
        if isinstance(rep, ast.Name):
            if rep.id == "APOSTROPHE":
                ok_rep = True
            else:
                ds = rd.at_ast(call, rep.id)

                def quotes_read(v: ast.AST | None, at: ast.AST | None, depth: int = 0) -> bool:
                    if v is None:
                        return False
                    b = v.value if isinstance(v, ast.Subscript) else v
                    if option_read_key(b) == "quotes":
                        return True
                    if isinstance(b, ast.Name) and at is not None and depth < 2:
                        # quotes = state.md.options.quotes; openQuote = quotes[k]
                        ds2 = rd.at_ast(at, b.id)
                        return bool(ds2) and all(d2.kind == "assign" and quotes_read(d2.value, d2.stmt, depth + 1) and not isinstance(d2.value, ast.Subscript)
                                                 for d2 in ds2)
                    return False
                ok_rep = bool(ds) and all(d.kind == "assign" and quotes_read(d.value, d.stmt) for d in ds)
        r.add(f"replaceAt|call|{alpha(pi, call)[:60]}|rep", c.where(pi, call), pi.short, U(call)[:80], "discharged" if ok_rep else "violation",
              "the replacement is the apostrophe or one of the configured quote strings" if ok_rep else
              f"replaceAt is called with replacement `{U(rep) if rep is not None else '?'}`, which is neither APOSTROPHE nor options.quotes[i]")
    if ncalls < 3:
        raise AnchorError(f"only {ncalls} replaceAt call sites found")
    # ---- positions taken from one regex match are translated into the text's frame the same way everywhere (sibling agreement:
    #      if most uses of `m.start()` add the offset of the searched slice and one does not, one of them is wrong)
    for f in sorted(funcs, key=lambda x: x.qual):
        matches = {n.targets[0].id for n in own_nodes(f.node) if isinstance(n, ast.Assign) and len(n.targets) == 1 and isinstance(n.targets[0], ast.Name)
                   and isinstance(n.value, ast.Call) and isinstance(n.value.func, ast.Attribute) and n.value.func.attr in ("search", "match", "fullmatch")}
        for mv in sorted(matches):
            uses: list[tuple[ast.AST, frozenset[str]]] = []
            for x in own_nodes(f.node):
                if isinstance(x, ast.Call) and isinstance(x.func, ast.Attribute) and x.func.attr in ("start", "end") \
                        and isinstance(x.func.value, ast.Name) and x.func.value.id == mv:
                    top: ast.AST = x
                    q = f.module.parents.get(top)
                    while isinstance(q, ast.BinOp) and isinstance(q.op, (ast.Add, ast.Sub)):
                        top, q = q, f.module.parents.get(q)
                    terms = frozenset(U(y) for y in ast.walk(top) if isinstance(y, (ast.Name, ast.Attribute)) and isinstance(getattr(y, "ctx", None), ast.Load)
                                      and not (isinstance(y, ast.Name) and y.id == mv) and not (isinstance(y, ast.Attribute) and y is x.func)
                                      and not any(isinstance(z, ast.Attribute) and z is not y and any(w is y for w in ast.walk(z)) for z in ast.walk(top)))
                    uses.append((top, terms))
            if len(uses) < 2:
                continue
            from collections import Counter
            cnt = Counter(t for (_, t) in uses)
            major, nmaj = cnt.most_common(1)[0]
            for (top, t) in uses:
                if t != major:
                    r.add(f"{f.short}|matchpos|{alpha(f, top)[:50]}", c.where(f, top), f.short, U(top)[:70], "violation",
                          f"a position of the match `{mv}` is translated with {sorted(t) or 'no offset'} here but with {sorted(major) or 'no offset'} at "
                          f"{nmaj} other places in the function: one of the two frames is wrong, text would be rewritten at the wrong index")
            if len(cnt) == 1:
                r.add(f"{f.short}|matchpos|{mv}", c.where(f, uses[0][0]), f.short, f"{mv}.start() / end()", "discharged",
                      f"all {len(uses)} positions taken from the match are translated alike ({sorted(major) or 'no offset'})")
    # ---- a position found in a snapshot of the text is applied to the text only while the snapshot is current
    _sync_obligations(c, r, funcs, ra)
    r.floor = 12
    return r


class _Sync(Problem):
    """Pairs (a, b) of access-path texts such that positions in a are positions in b: generated by `a = b`, killed by a store
    to a or b (or to a prefix, or to the same attribute of any other object - it may be the same object) unless the store is
    `S = replaceAt(S, i, X)` with X a constant of length 1, which keeps every position where it is."""

    def __init__(self, keeps_length=None) -> None:
        self.keeps_length = keeps_length or (lambda stmt: False)

    def entry_state(self):
        return frozenset()

    def join(self, a, b, at):
        return a & b

    def edge(self, n: Node, state, label: str, succ: Node):
        st = set(state)
        a = n.ast
        if a is None or n.kind != "stmt" or label == "exc":
            if n.kind == "for" and label == "iter" and a is not None:
                names = {x.id for x in ast.walk(a.target) if isinstance(x, ast.Name)}
                st = {p for p in st if not (_roots(p[0]) | _roots(p[1])) & names}
            return frozenset(st)
        tg: list[ast.AST] = []
        val = None
        if isinstance(a, ast.Assign):
            tg, val = list(a.targets), a.value
        elif isinstance(a, (ast.AugAssign, ast.AnnAssign)):
            tg, val = [a.target], getattr(a, "value", None)
        if self.keeps_length(a):
            return frozenset(st)
        for t in tg:
            for e in (t.elts if isinstance(t, (ast.Tuple, ast.List)) else [t]):
                txt = U(e)
                st = {p for p in st if not any(q == txt or q.startswith(txt + ".") or q.startswith(txt + "[") or
                                               (isinstance(e, ast.Name) and e.id in _roots(q)) or
                                               (isinstance(e, ast.Attribute) and q.endswith("." + e.attr)) for q in p)}
        if isinstance(a, ast.Assign) and len(a.targets) == 1 and isinstance(a.targets[0], (ast.Name, ast.Attribute)) \
                and isinstance(val, (ast.Name, ast.Attribute)):
            st.add((U(a.targets[0]), U(val)))
        return frozenset(st)


def _roots(txt: str) -> set[str]:
    try:
        return {x.id for x in ast.walk(ast.parse(txt, mode="eval")) if isinstance(x, ast.Name)}
    except SyntaxError:
        return set()


def _sync_obligations(c: Ctx, r: RuleResult, funcs: list[Func], ra: Func) -> None:
    for f in sorted(funcs, key=lambda x: x.qual):
        calls = [cs for cs in c.cg.sites.get(f, []) if ra in cs.callees and len(cs.node.args) >= 2]
        if not calls:
            continue
        # match variables: m = RE.search(T[...]) / for m in RE.finditer(T)
        searched: dict[str, set[str]] = {}
        for n in own_nodes(f.node):
            tgt = src = None
            if isinstance(n, ast.Assign) and len(n.targets) == 1 and isinstance(n.targets[0], ast.Name) and isinstance(n.value, ast.Call):
                tgt, src = n.targets[0].id, n.value
            elif isinstance(n, ast.For) and isinstance(n.target, ast.Name) and isinstance(n.iter, ast.Call):
                tgt, src = n.target.id, n.iter
            if tgt is None or not (isinstance(src.func, ast.Attribute) and src.func.attr in ("search", "match", "fullmatch", "finditer") and src.args):
                continue
            e = src.args[-1] if U(src.func.value) == "re" and len(src.args) > 1 else src.args[0]
            while isinstance(e, ast.Subscript):
                e = e.value
            if isinstance(e, (ast.Name, ast.Attribute)):
                searched.setdefault(tgt, set()).add(U(e))
        if not searched:
            continue
        cfg = c.cfg(f)
        def keeps_length(stmt: ast.AST, f=f) -> bool:
            if not (isinstance(stmt, ast.Assign) and len(stmt.targets) == 1 and isinstance(stmt.value, ast.Call)):
                return False
            cs_ = c.cg.site_of.get(stmt.value)
            if cs_ is None or ra not in cs_.callees or len(cs_.callees) != 1 or len(stmt.value.args) < 3:
                return False
            if U(stmt.value.args[0]) != U(stmt.targets[0]):
                return False
            rep = stmt.value.args[2]
            if isinstance(rep, ast.Constant):
                return isinstance(rep.value, str) and len(rep.value) == 1
            if isinstance(rep, ast.Name) and not c.tf.scope(f).is_local(rep.id):
                try:
                    v = c.p.const_value(f.module, rep.id)
                except Exception:          # noqa: BLE001
                    return False
                return isinstance(v, str) and len(v) == 1
            return False
        res = solve(cfg, _Sync(keeps_length), widen_after=10**9)
        rd = Reaching(cfg)
        for cs in calls:
            call = cs.node
            S, idx = call.args[0], call.args[1]
            ms = set()
            todo = [idx]
            seen_n: set[str] = set()
            while todo:
                e = todo.pop()
                for x in ast.walk(e):
                    if isinstance(x, ast.Call) and isinstance(x.func, ast.Attribute) and x.func.attr in ("start", "end", "span") \
                            and isinstance(x.func.value, ast.Name) and x.func.value.id in searched:
                        ms.add(x.func.value.id)
                    elif isinstance(x, ast.Name) and x.id not in seen_n and x.id not in searched:
                        seen_n.add(x.id)
                        for d in rd.at_ast(call, x.id):
                            if d.kind == "assign" and d.value is not None:
                                todo.append(d.value)
            if not ms:
                continue
            for mv in sorted(ms):
                for T in sorted(searched[mv]):
                    key = f"{f.short}|sync|{alpha(f, call)[:50]}|{mv}"
                    if T == U(S):
                        r.add(key, c.where(f, call), f.short, U(call)[:70], "discharged", f"the position is applied to the string it was found in (`{T}`)")
                        continue
                    ok = True
                    for nd in cfg.owner(call):
                        st = res.get(nd.id)
                        if st is None:
                            continue
                        if (T, U(S)) not in st and (U(S), T) not in st:
                            ok = False
                    r.add(key, c.where(f, call), f.short, U(call)[:70], "discharged" if ok else "violation",
                          f"`{T}` (searched) is a current copy of `{U(S)}` on every path to this replacement" if ok else
                          f"the position comes from a match in `{T}`, a snapshot of `{U(S)}` that is not refreshed on every path after `{U(S)}` "
                          f"was rewritten: once a replacement changes the length of the text (quote strings are configurable), later "
                          f"positions are stale and other characters are overwritten")


def _yield_guards(c: Ctx, f: Func, recv: ast.AST) -> list[tuple[Func, ast.AST, object]] | None:
    """If `recv` is the target of `for recv in g(...)` with g a generator of this repository: the (g, yielded expr, facts) of
    every yield of g - the guard then lives at the yield site."""
    if not isinstance(recv, ast.Name):
        return None
    for loop in own_nodes(f.node):
        if isinstance(loop, ast.For) and isinstance(loop.target, ast.Name) and loop.target.id == recv.id and isinstance(loop.iter, ast.Call):
            cs = c.cg.site_of.get(loop.iter)
            if cs is None or len(cs.callees) != 1:
                return None
            g = cs.callees[0]
            ys = [y for y in own_nodes(g.node) if isinstance(y, ast.Yield) and y.value is not None]
            if not ys:
                return None
            gcfg, gres = c.facts(g)
            out = []
            for y in ys:
                for cn in gcfg.owner(y):
                    out.append((g, y.value, gres.get(cn.id)))
            return out
    return None


def _stack_entry_guard(c: Ctx, f: Func, recv: ast.AST, cfg: CFG, res: dict) -> str:
    """recv is `tokens[<record>.<field>]` (directly or through a single-definition local) where the record comes from a local
    stack whose entries are only appended under a `type == 'text'` guard, with that field holding the index of the guarded
    token.  -> reason ('' = not this shape)."""
    e = recv
    if isinstance(e, ast.Name):
        ds = [n_.value for n_ in own_nodes(f.node) if isinstance(n_, ast.Assign) and any(isinstance(t, ast.Name) and t.id == e.id for t in n_.targets)]
        if len(ds) != 1:
            return ""
        e = ds[0]
    if not (isinstance(e, ast.Subscript) and not isinstance(e.slice, ast.Slice)):
        return ""
    idx = e.slice
    field: Any = None
    rec: ast.AST | None = None
    if isinstance(idx, ast.Attribute):
        field, rec = idx.attr, idx.value
    elif isinstance(idx, ast.Subscript) and isinstance(idx.slice, ast.Constant):
        field, rec = idx.slice.value, idx.value
    if rec is None or not isinstance(rec, (ast.Name, ast.Subscript)):
        return ""
    # the stack the record comes from
    stack_name = None
    if isinstance(rec, ast.Subscript) and isinstance(rec.value, ast.Name):
        stack_name = rec.value.id
    elif isinstance(rec, ast.Name):
        srcs = c.eff.binding_sources(f, rec.id)
        names = set()
        for s_ in srcs:
            if isinstance(s_, ast.Subscript) and isinstance(s_.value, ast.Name):
                names.add(s_.value.id)
            elif isinstance(s_, ast.Name):
                names.add(s_.id)
            else:
                return ""
        if len(names) == 1:
            stack_name = next(iter(names))
    if stack_name is None:
        return ""
    apps = [x for x in own_nodes(f.node) if isinstance(x, ast.Call) and isinstance(x.func, ast.Attribute) and x.func.attr == "append"
            and isinstance(x.func.value, ast.Name) and x.func.value.id == stack_name and x.args]
    if not apps:
        return ""
    # field order of a record class (NamedTuple) for positional / index access
    def field_value(x: ast.AST) -> ast.AST | None:
        if isinstance(x, ast.Dict):
            return next((v for k, v in zip(x.keys, x.values) if isinstance(k, ast.Constant) and k.value == field), None)
        if isinstance(x, ast.Call) and isinstance(x.func, ast.Name):
            for k in x.keywords:
                if k.arg == field:
                    return k.value
            ci = c.p.classes.get(x.func.id) if hasattr(c.p, "classes") else None
            order = [s_.target.id for s_ in ci.node.body if isinstance(s_, ast.AnnAssign) and isinstance(s_.target, ast.Name)] if ci is not None else []
            if isinstance(field, str) and field in order and order.index(field) < len(x.args):
                return x.args[order.index(field)]
            if isinstance(field, int) and field < len(x.args):
                return x.args[field]
            if isinstance(field, int) and order and field < len(order):
                return next((k.value for k in x.keywords if k.arg == order[field]), None)
            return None
        if isinstance(x, ast.Tuple) and isinstance(field, int) and field < len(x.elts):
            return x.elts[field]
        return None
    for a in apps:
        fv = field_value(a.args[0])
        if not isinstance(fv, ast.Name):
            return ""
        guarded = False
        for cn in cfg.owner(a):
            z = res.get(cn.id)
            if z is not None and any(t.endswith(".type == 'text'") and p for (t, p) in z.preds):
                guarded = True
        if not guarded:
            return ""
    return "stack entries are recorded only for the current token under its type == 'text' guard, and the token is looked up by the recorded index"


def _text_guard(c: Ctx, f: Func, n: ast.AST, recv: ast.AST, cfg: CFG, res: dict, _depth: int = 0) -> tuple[bool, str]:
    rt = U(recv)
    yg = _yield_guards(c, f, recv)
    if yg:
        if all(z is None or z.holds(f"{U(v)}.type == 'text'", True) for (_, v, z) in yg):
            return True, f"`{rt}` comes from generator {yg[0][0].short}, every yield of which is dominated by type == 'text'"
        return False, f"`{rt}` comes from generator {yg[0][0].short}, which can yield a token without a type == 'text' guard"
    good = False
    for cn in cfg.owner(n):
        z = res.get(cn.id)
        if z is None:
            continue
        if z.holds(f"{rt}.type == 'text'", True):
            good = True
        else:
            good = False
            break
    if good:
        return True, f"dominated by {rt}.type == 'text'"
    # tokens[item.token] / tokens[item[0]] / through a local alias (`opener = tokens[item.token]`): records of the quote stack
    g_ok = _stack_entry_guard(c, f, recv, cfg, res)
    if g_ok:
        return True, g_ok
    # tokens[item["token"]]: entries of the quote stack are appended only under the text guard with the current index
    if isinstance(recv, ast.Subscript) and isinstance(recv.slice, ast.Subscript) and isinstance(recv.slice.slice, ast.Constant) \
            and recv.slice.slice.value == "token":
        apps = [x for x in own_nodes(f.node) if isinstance(x, ast.Call) and isinstance(x.func, ast.Attribute) and x.func.attr == "append"
                and isinstance(x.args[0] if x.args else None, ast.Dict)]
        ok = bool(apps)
        for a in apps:
            d = a.args[0]
            tokv = next((v for k, v in zip(d.keys, d.values) if isinstance(k, ast.Constant) and k.value == "token"), None)
            if tokv is None:
                ok = False
                continue
            # the appended index is the enumerate index of the loop whose element is guarded as text
            guarded = False
            for cn in cfg.owner(a):
                z = res.get(cn.id)
                if z is not None and any(t.endswith(".type == 'text'") and p for (t, p) in z.preds):
                    guarded = True
            if not guarded or not isinstance(tokv, ast.Name):
                ok = False
        if ok:
            return True, "stack entries are recorded only for the current token under its type == 'text' guard"
    # the token is a parameter of a helper: the guard is the caller's (every call site passes a token it has tested)
    if isinstance(recv, ast.Name) and recv.id in [a.arg for a in f.node.args.args + f.node.args.kwonlyargs] and _depth < 3:
        sites = c.cg.callers.get(f, [])
        if sites and all(cs.kind in ("direct", "method") for cs in sites):
            whys = []
            for cs in sites:
                a = c.eff.arg_for_param(cs, f, recv.id)
                if a is None:
                    break
                ccfg, cres = c.facts(cs.caller)
                ok_, why_ = _text_guard(c, cs.caller, cs.node, a, ccfg, cres, _depth + 1)
                if not ok_:
                    return False, f"helper {f.short} is called from {cs.caller.short} with a token that is not guarded: {why_}"
                whys.append(why_)
            else:
                return True, f"parameter `{rt}`: at every call site the token passed is guarded ({whys[0]})"
    return False, f"the store to `{rt}.content` is not dominated by `{rt}.type == 'text'`"


def _step_helper_ok(c: Ctx | None, f: Func, call: ast.AST) -> bool:
    """`call` is <helper>(token) where the helper returns the change of the autolink counter caused by the token: a non-zero
    constant d for a link_open with info 'auto', -d for such a link_close, 0 for any token whose info is not 'auto'
    (decided by walking the helper's CFG under each of the three cases)."""
    if c is None or not isinstance(call, ast.Call) or len(call.args) != 1:
        return False
    cs = c.cg.site_of.get(call)
    if cs is None or len(cs.callees) != 1 or cs.callees[0].module is not f.module:
        return False
    h = cs.callees[0]
    if not h.node.args.args:
        return False
    p = h.node.args.args[0].arg
    hcfg = c.cfg(h)

    def walk(info_auto: bool, kind: str):
        cur = hcfg.entry
        for _ in range(500):
            if cur is None or cur is hcfg.exit:
                return None
            if cur.kind == "test":
                a = cur.ast
                v = None
                if isinstance(a, ast.Compare) and len(a.ops) == 1 and isinstance(a.comparators[0], ast.Constant):
                    lhs, rhs = U(a.left), a.comparators[0].value
                    eq = isinstance(a.ops[0], ast.Eq)
                    if isinstance(a.ops[0], (ast.Eq, ast.NotEq)):
                        if lhs == f"{p}.info" and rhs == "auto":
                            v = info_auto == eq
                        elif lhs == f"{p}.type":
                            v = (kind == rhs) == eq
                if v is None:
                    return None
                cur = next((m for (m, l) in cur.succ if l == ("T" if v else "F")), None)
                continue
            if cur.kind == "stmt" and isinstance(cur.ast, ast.Return):
                from ..syn import const_int
                return const_int(cur.ast.value) if cur.ast.value is not None else None
            nxt = [m for (m, l) in cur.succ if l != "exc"]
            cur = nxt[0] if len(nxt) == 1 else None
        return None
    a_, b_, z1, z2 = walk(True, "link_open"), walk(True, "link_close"), walk(False, "link_open"), walk(False, "link_close")
    return a_ is not None and b_ is not None and a_ != 0 and b_ == -a_ and z1 == 0 and z2 == 0


_CTX_FOR_COUNTERS: list = []


def _autolink_counters(g: Func) -> set[str]:
    """Locals of g that are incremented / decremented under a test of a token's type against 'link_open' / 'link_close' - or by
    the result of a helper that computes that step from the token."""
    from ..syn import incr_of
    out: set[str] = set()
    for n in own_nodes(g.node):
        inc = incr_of(n) if isinstance(n, (ast.Assign, ast.AugAssign)) else None
        if inc is not None and inc[0].isidentifier() and inc[2] and isinstance(inc[1], ast.Call) and _CTX_FOR_COUNTERS \
                and _step_helper_ok(_CTX_FOR_COUNTERS[0], g, inc[1]):
            out.add(inc[0])
    for n in own_nodes(g.node):
        if isinstance(n, ast.If) and any(isinstance(x, ast.Constant) and x.value in ("link_open", "link_close") for x in ast.walk(n.test)):
            for s_ in ast.walk(n):
                inc = incr_of(s_) if isinstance(s_, (ast.Assign, ast.AugAssign)) else None
                if inc is not None and inc[0].isidentifier():
                    out.add(inc[0])
    return out


def _autolink_guard(f: Func, n: ast.AST, cfg: CFG, res: dict, c: Ctx | None = None, recv: ast.AST | None = None) -> bool:
    if c is not None and recv is not None:
        yg = _yield_guards(c, f, recv)
        if yg:
            cs_ = _autolink_counters(yg[0][0])
            return bool(cs_) and all(z is None or any(t in cs_ and (p is False) for (t, p) in z.preds) for (_, _, z) in yg)
    counters = _autolink_counters(f)
    if not counters:
        return False
    for cn in cfg.owner(n):
        z = res.get(cn.id)
        if z is None:
            continue
        if not any(t in counters and (p is False) for (t, p) in z.preds):
            return False
    return True


def _autolink_guard_any(c: Ctx, f: Func, n: ast.AST, recv: ast.AST, cfg: CFG, res: dict, depth: int = 0) -> bool:
    """The store `recv.content = ...` at n cannot hit the text of an autolink: it is dominated by the autolink counter being zero
    (directly, or in the generator that yields the token); or recv is the token of a stack record (`tokens[item["token"]]`) and
    every append to a bookkeeping list of the function happens under that fact (a token is recorded only while it is the
    current, eligible one); or recv is a helper's parameter and the token passed at every call site satisfies this."""
    if _autolink_guard(f, n, cfg, res, c, recv):
        return True
    counters = _autolink_counters(f)
    e = recv
    if isinstance(e, ast.Name):
        ds = [n_.value for n_ in own_nodes(f.node) if isinstance(n_, ast.Assign) and any(isinstance(t, ast.Name) and t.id == e.id for t in n_.targets)]
        if len(ds) == 1:
            e = ds[0]
    if counters and isinstance(e, ast.Subscript) and not isinstance(e.slice, ast.Slice) and (
            isinstance(e.slice, ast.Attribute) or (isinstance(e.slice, ast.Subscript) and isinstance(e.slice.slice, ast.Constant))):
        sc = c.tf.scope(f)
        apps = [x for x in own_nodes(f.node) if isinstance(x, ast.Call) and isinstance(x.func, ast.Attribute) and x.func.attr == "append"
                and isinstance(x.func.value, ast.Name) and x.args and isinstance(x.args[0], (ast.Dict, ast.Call, ast.Tuple))
                and not (isinstance(sc.type(x.func.value), tuple) and sc.type(x.func.value)[1:] == ("Token",))]
        if apps and all(all((z := res.get(cn.id)) is None or any(t in counters and (p is False) for (t, p) in z.preds) for cn in cfg.owner(a)) for a in apps):
            return True
    if isinstance(recv, ast.Name) and recv.id in [a.arg for a in f.node.args.args + f.node.args.kwonlyargs] and depth < 3:
        sites = c.cg.callers.get(f, [])
        if sites and all(cs.kind in ("direct", "method") for cs in sites):
            for cs in sites:
                a = c.eff.arg_for_param(cs, f, recv.id)
                if a is None:
                    return False
                ccfg, cres = c.facts(cs.caller)
                if not _autolink_guard_any(c, cs.caller, cs.node, a, ccfg, cres, depth + 1):
                    return False
            return True
    return False


def _bookkeeping(c: Ctx, r: RuleResult, f: Func) -> None:
    """In a loop over tokens that maintains an autolink counter: for a token of kind link_open (resp. link_close) every path
    through the loop body evaluates the guard of the corresponding counter update - no `continue` taken for such a token
    can bypass it.  The walk specialises the tests on the token's type to the kind considered (an `elif` after
    `type == "text"` is not a bypass: a link token never takes the text branch)."""
    from ..syn import incr_of
    cfg = c.cfg(f)
    counters = _autolink_counters(f)
    for loop in [n for n in own_nodes(f.node) if isinstance(n, ast.For)]:
        ups = [s for s in ast.walk(loop) if isinstance(s, (ast.Assign, ast.AugAssign)) and (i_ := incr_of(s)) is not None and i_[0] in counters]
        tgt = loop.target
        if isinstance(tgt, ast.Tuple) and len(tgt.elts) == 2 and isinstance(loop.iter, ast.Call) and U(loop.iter.func) == "enumerate":
            tgt = tgt.elts[1]          # for i, token in enumerate(tokens)
        if not ups or not isinstance(tgt, ast.Name):
            continue
        tok = tgt.id
        head = next((x for x in cfg.nodes if x.kind == "for" and x.ast is loop), None)
        if head is None:
            continue
        ok = True
        kinds_seen = []
        work: list[tuple[ast.AST, str, set[int]]] = []
        for u in ups:
            iu = incr_of(u)
            if iu is not None and isinstance(iu[1], ast.Call) and _step_helper_ok(c, f, iu[1]):
                # `counter += step(token)`: the statement itself is the update for both kinds
                work.append((u, "link_open", set()))
                work.append((u, "link_close", set()))
                continue
            # the guard: the enclosing `if`s (innermost first) whose tests look only at the token itself - `if token.type ==
            # "link_open" and token.info == "auto":`, or the two tests nested either way round; a test that mentions anything
            # else (the counter, another variable, a call) ends the chain
            gt: set[int] = set()
            lits: list[str] = []
            anc = f.module.parents.get(u)
            child: ast.AST = u
            while anc is not None and anc is not loop:
                if isinstance(anc, ast.If) and any(x is child for x in anc.body):
                    names_ = {x.id for x in ast.walk(anc.test) if isinstance(x, ast.Name)}
                    if names_ <= {tok} and not any(isinstance(x, ast.Call) for x in ast.walk(anc.test)):
                        gt |= {id(x) for x in ast.walk(anc.test)}
                        lits += [x.value for x in ast.walk(anc.test) if isinstance(x, ast.Constant) and x.value in ("link_open", "link_close")]
                    else:
                        break
                elif isinstance(anc, ast.If):
                    pass          # u sits in the else-chain of this `if`: its test is specialised by the walk below
                child, anc = anc, f.module.parents.get(anc)
            if len(lits) != 1:
                ok = False
                continue
            work.append((u, lits[0], gt))
        for (u, L, guard_tests) in work:
            kinds_seen.append(L)
            unode = {n.id for n in cfg.owner(u)}

            def type_test(a: ast.AST):
                """-> True/False if the test is decided by tok.type == L, else None."""
                if isinstance(a, ast.Compare) and len(a.ops) == 1 and U(a.left) == f"{tok}.type":
                    rhs = a.comparators[0]
                    if isinstance(rhs, ast.Constant):
                        if isinstance(a.ops[0], ast.Eq):
                            return rhs.value == L
                        if isinstance(a.ops[0], ast.NotEq):
                            return rhs.value != L
                    if isinstance(rhs, (ast.Tuple, ast.List, ast.Set)) and all(isinstance(e, ast.Constant) for e in rhs.elts):
                        vals = {e.value for e in rhs.elts}
                        if isinstance(a.ops[0], ast.In):
                            return L in vals
                        if isinstance(a.ops[0], ast.NotIn):
                            return L not in vals
                return None
            seen: set[int] = set()
            stack = [m for (m, l) in head.succ if l == "iter"]
            bypass = False
            while stack:
                x = stack.pop()
                if x.id in seen:
                    continue
                seen.add(x.id)
                if x.id in unode:
                    continue
                if x is head:
                    bypass = True
                    break
                if x.kind == "test" and x.ast is not None:
                    tt = type_test(x.ast)
                    if tt is not None:
                        stack.extend(m for (m, l) in x.succ if l == ("T" if tt else "F"))
                        continue
                    if id(x.ast) in guard_tests:
                        continue          # the guard of the update is being evaluated for this token: not a bypass
                stack.extend(m for (m, l) in x.succ if l != "exc")
            if bypass:
                ok = False
        r.add(f"{f.short}|autolink-bookkeeping", c.where(f, loop), f.short, f"for {U(loop.target)} in {U(loop.iter)}: ...",
              "discharged" if ok and {"link_open", "link_close"} <= set(kinds_seen) else "violation",
              "for a link_open / link_close token every path through the loop body evaluates the guard of the autolink counter update" if ok and {"link_open", "link_close"} <= set(kinds_seen) else
              "a link_open / link_close token can pass through the loop body without the autolink counter's guard being evaluated (an early "
              "`continue`), or one of the two updates is missing: the counter misses link tokens and autolink text is rewritten")


def rule_order(c: Ctx) -> RuleResult:
    r = RuleResult("ORDER", "core pipeline order: block < inline < replacements, smartquotes < text_join (escaped characters are still "
                            "text_special, not text, while the typographer runs)")
    idx = {reg.name: reg.index for reg in c.reg.rules["core"]}
    pairs = [("normalize", "block"), ("block", "inline"), ("inline", "replacements"), ("inline", "smartquotes"), ("replacements", "text_join"),
             ("smartquotes", "text_join"), ("inline", "linkify"), ("linkify", "text_join")]
    for a, b in pairs:
        if a not in idx or b not in idx:
            r.add(f"{a}<{b}", "markdown_it/parser_core.py:0", "parser_core._rules", f"{a} < {b}", "violation", f"core rule `{a if a not in idx else b}` is not registered")
            continue
        ok = idx[a] < idx[b]
        r.add(f"{a}<{b}", "markdown_it/parser_core.py:0", "parser_core._rules", f"{a}@{idx[a]} < {b}@{idx[b]}", "discharged" if ok else "violation",
              "in the required order" if ok else f"`{b}` runs before `{a}`: " +
              ("escaped characters would already be plain text when the typographer runs" if b == "text_join" else "the pipeline stages are out of order"))
    r.floor = 8
    return r
