"""BND: every integer subscript of a source string in the parse/render phase is in range on every path.

Discharge, in order: (1) enclosing ``try`` that handles IndexError; (2) the facts analysis entails ``idx + c < B`` for a
bound ``B`` of that string; (3) the function's entry contract (inline rules / skipToken / scanDelims start inside the
source; block rules dispatched only on non-blank lines start before the end mark) - contracts are validated at the
dispatch / call sites; (4) a reviewed exemption keyed by function and alpha-normalised construct.
"""
from __future__ import annotations

import ast
import re
from typing import Any

from ..cfg import CFG, Node
from ..core import AnchorError, Func, U, own_nodes
from ..ctx import Ctx
from ..facts import Facts, FactsProblem, T, ZERO, expr_local, lin
from ..report import RuleResult, alpha

INDEX_ERRORS = {"IndexError", "LookupError", "Exception", "BaseException"}

# (function short name, alpha-normalised subscript) -> reason.  Reviewed by reading the code (DESIGN 4/C01).
EXEMPT: dict[tuple[str, str], str] = {
    ("StateBlock.skipSpacesBack", "self.src[P1]"):
        "callers pass pos <= len(src); the loop decrements before reading (pos -= 1 precedes the read)",
    ("StateBlock.skipCharsStrBack", "self.src[P1]"):
        "callers pass pos <= len(src); the loop decrements before reading (pos -= 1 precedes the read)",
    ("ParserInline.tokenize", "state.src[state.pos]"):
        "fallback after every rule returned False: by IR-2 no rule moved pos/posMax, so pos is what the loop condition tested",
}


# Exemptions stated by provenance: the index is `x + offset` where every definition of x in the function is a call of one of
# the named scanners (possibly through a local alias of the scanner), and the string is the source.  Robust to renaming,
# to a local alias of the source and to extraction into a helper of the same module.
PROV_EXEMPT: list[tuple[str, frozenset[str], int, str]] = [
    ("rules_block/heading.py", frozenset({"skipCharsStrBack"}), -1,
     "result of skipCharsStrBack(skipSpacesBack(maximum, pos), '#', pos) lies in [pos, maximum] and the read is guarded by tmp > pos, so pos <= tmp-1 < maximum"),
    ("rules_block/list.py", frozenset({"skipBulletListMarker", "skipOrderedListMarker"}), -1,
     "posAfterMarker is the position just after a marker character that the marker scanner has read (>= 1 and <= eMarks)"),
]


def _callee_names(bounds: "Bounds", fn: ast.AST, depth: int = 0) -> set[str] | None:
    """Names a called expression may denote: a function name / method name, or a local alias bound to such names."""
    if isinstance(fn, ast.Attribute):
        return {fn.attr}
    if isinstance(fn, ast.IfExp):
        a, b = _callee_names(bounds, fn.body, depth), _callee_names(bounds, fn.orelse, depth)
        return None if a is None or b is None else a | b
    if isinstance(fn, ast.Name):
        ds = bounds.defs.get(fn.id)
        if not ds:
            return {fn.id}
        if depth > 3 or any(d is None for d in ds):
            return None
        out: set[str] = set()
        for d in ds:
            sub = _callee_names(bounds, d, depth + 1)          # type: ignore[arg-type]
            if sub is None:
                return None
            out |= sub
        return out
    return None


def _prov_exempt(f: Func, bounds: "Bounds", s: ast.Subscript) -> str:
    l = lin(s.slice)
    if l is None or l[0] is None:
        return ""
    strx = bounds.canon(s.value)
    if not (isinstance(strx, ast.Attribute) and strx.attr == "src"):
        return ""
    ds = bounds.defs.get(l[0])
    if not ds or any(d is None or not isinstance(d, ast.Call) for d in ds):
        return ""
    prov: set[str] = set()
    for d in ds:
        names = _callee_names(bounds, d.func)          # type: ignore[union-attr]
        if names is None:
            return ""
        prov |= names
    # a wrapper every return of which is the call of a scanner (`_skipListMarker(state, line, ordered)`) stands for those scanners
    for _ in range(2):
        more: set[str] = set()
        for nm in sorted(prov):
            h = bounds.c.p.resolve_name(f.module, nm)
            h = h if isinstance(h, Func) and h.cls is None else None
            rets = [x for x in own_nodes(h.node) if isinstance(x, ast.Return)] if h is not None else []
            if h is not None and rets and all(isinstance(x.value, ast.Call) and isinstance(x.value.func, (ast.Name, ast.Attribute)) for x in rets) \
                    and not any(nm2 == nm for x in rets for nm2 in (_callee_names(bounds, x.value.func) or {nm})) \
                    and not any(a_nm in {y.id for x in rets for y in ast.walk(x.value.func) if isinstance(y, ast.Name)}
                                for a_nm in [a.arg for a in h.node.args.args]):
                for x in rets:
                    more |= ({x.value.func.id} if isinstance(x.value.func, ast.Name) else {x.value.func.attr})
            else:
                more.add(nm)
        prov = more
    for (rel, allowed, off, why) in PROV_EXEMPT:
        if f.module.rel == rel and prov and prov <= allowed and l[1] == off:
            return why
    return ""


_GETLINES_WHY = ("first < last was tested by the enclosing loop; last is eMarks[line], or eMarks[line] + 1 when the line feed is kept. For the "
                 "last line of a source without trailing line feed eMarks[line] + 1 is len(src) + 1, and the read at first == len(src) is "
                 "reached only if the whole line is blank and narrower than `indent`: the callers exclude that - html_block passes "
                 "blkIndent after testing sCount[line] >= blkIndent, fence ends its body at a line whose first non-blank offset is "
                 "len(src) (its IndexError handler), code / paragraph / reference do not keep the last line feed. This caller-side "
                 "argument is relational (widths against indents) and is NOT decided by the checker: seed C01-10 (fence's handler "
                 "replaced by `continue`) is a declared miss")


def _group_min_width(pat: str, flags: int, n: int) -> int | None:
    import re._parser as sp          # type: ignore[import-not-found]
    try:
        tree = sp.parse(pat, flags)
    except Exception:          # noqa: BLE001
        return None

    def find(items) -> int | None:
        for op, av in items:
            if str(op) == "SUBPATTERN":
                gid, _, _, sub = av
                if gid == n:
                    return int(sub.getwidth()[0])
                r_ = find(sub)
                if r_ is not None:
                    return r_
            elif str(op) == "BRANCH":
                for alt in av[1]:
                    r_ = find(alt)
                    if r_ is not None:
                        return r_
            elif str(op) in ("MAX_REPEAT", "MIN_REPEAT"):
                r_ = find(av[2])
                if r_ is not None:
                    return r_ if av[0] >= 1 else 0
        return None
    return find(tree)


def _min_len(c: Ctx, f: Func, e: ast.AST, at: ast.AST, depth: int = 0) -> int | None:
    """A lower bound for the length of the string `e` evaluates to: a group of a module-level regex constant (possibly one of
    two selected by a flag), a parameter (minimum over the actuals at all call sites), a local (minimum over its definitions)."""
    from ..reach import Reaching
    if depth > 4:
        return None
    if isinstance(e, ast.Constant) and isinstance(e.value, str):
        return len(e.value)
    if isinstance(e, ast.Call) and isinstance(e.func, ast.Attribute) and e.func.attr == "group" and len(e.args) == 1 \
            and isinstance(e.args[0], ast.Constant) and isinstance(e.args[0].value, int) and isinstance(e.func.value, ast.Name):
        rd = Reaching(c.cfg(f))
        regs = {(m.rel, name): (pat, fl) for (m, name, pat, fl, node) in c.p.regex_constants() if name}
        out = None
        for d in rd.at_ast(at, e.func.value.id):
            v = d.value
            if not (d.kind in ("assign", "walrus") and isinstance(v, ast.Call) and isinstance(v.func, ast.Attribute)
                    and isinstance(v.func.value, (ast.Name, ast.IfExp)) and v.func.attr in ("search", "match", "fullmatch")):
                return None
            if isinstance(v.func.value, ast.IfExp):
                # (RE_A if flag else RE_B).search(...): the shorter of the two groups
                if not (isinstance(v.func.value.body, ast.Name) and isinstance(v.func.value.orelse, ast.Name)):
                    return None
                names = [v.func.value.body.id, v.func.value.orelse.id]
            else:
                names = [v.func.value.id]
            if (f.module.rel, names[0]) not in regs and len(names) == 1:
                pds = list(rd.at_ast(d.stmt, names[0])) if d.stmt is not None else []
                if len(pds) == 1 and isinstance(pds[0].value, ast.IfExp) and isinstance(pds[0].value.body, ast.Name) and isinstance(pds[0].value.orelse, ast.Name):
                    names = [pds[0].value.body.id, pds[0].value.orelse.id]
            for nm in names:
                rx = regs.get((f.module.rel, nm))
                if rx is None:
                    return None
                w = _group_min_width(rx[0], rx[1], e.args[0].value)
                if w is None:
                    return None
                out = w if out is None else min(out, w)
        return out
    if isinstance(e, ast.Subscript) and isinstance(e.slice, ast.Slice) and e.slice.upper is None and e.slice.step is None and e.slice.lower is not None:
        # a suffix `S[lo:]` of a source string: at least B - lo characters for a bound B of S the facts relate lo to
        l = lin(e.slice.lower)
        if l is None or l[0] is None or not _is_source_string(c, f, ast.Subscript(value=e.value, slice=ast.Constant(value=0), ctx=ast.Load())):
            return None
        cfg_, res_ = bnd_facts(c, f)
        bounds_ = Bounds(c, f)
        out_: int | None = None
        for nd in cfg_.owner(at):
            z = res_.get(nd.id)
            if z is None:
                continue
            z = z.copy()
            z.close()
            best = None
            for (b, k) in z.upper_bounds(T(l[0])):
                if bounds_.is_bound(b, e.value):
                    w = -(k + l[1])
                    best = w if best is None else max(best, w)
            if best is None or best <= 0:
                return None
            out_ = best if out_ is None else min(out_, best)
        return out_
    if isinstance(e, ast.Name):
        rd = Reaching(c.cfg(f))
        out = None
        for d in rd.at_ast(at, e.id):
            if d.kind == "param":
                sites = c.cg.callers.get(f, [])
                if not sites or any(x.kind not in ("direct", "method") for x in sites):
                    return None
                for x in sites:
                    a_ = c.eff.arg_for_param(x, f, e.id)
                    w = _min_len(c, x.caller, a_, x.node, depth + 1) if a_ is not None else None
                    if w is None:
                        return None
                    out = w if out is None else min(out, w)
            elif d.kind in ("assign", "walrus") and d.value is not None and d.stmt is not None:
                w = _min_len(c, f, d.value, d.stmt, depth + 1)
                if w is None:
                    return None
                out = w if out is None else min(out, w)
            else:
                return None
        return out
    return None


def _getlines_exempt(f: Func, bounds: "Bounds", s: ast.Subscript) -> str:
    """The line cutter of StateBlock (getLines or a helper extracted from it): `src[i]` inside a loop guarded by `i < B` where
    every definition of B is `eMarks[..]` or `eMarks[..] + 1` (possibly selected by a flag)."""
    if f.module.rel != "rules_block/state_block.py" or f.cls != "StateBlock" or not isinstance(s.slice, ast.Name):
        return ""
    idx = s.slice.id
    q = f.module.parents.get(s)
    while q is not None and q is not f.node:
        if isinstance(q, ast.While):
            for a in ([q.test] if not isinstance(q.test, ast.BoolOp) else q.test.values):
                while isinstance(a, ast.BoolOp):
                    a = a.values[0]
                if isinstance(a, ast.Compare) and len(a.ops) == 1 and isinstance(a.ops[0], ast.Gt):
                    # B > i, the same test written the other way round
                    a = ast.Compare(left=a.comparators[0], ops=[ast.Lt()], comparators=[a.left])
                if isinstance(a, ast.Compare) and len(a.ops) == 1 and isinstance(a.ops[0], ast.Lt) and isinstance(a.left, ast.Name) \
                        and a.left.id == idx and isinstance(a.comparators[0], ast.Name):
                    B = a.comparators[0].id
                    ds = []
                    aug_ok = True
                    for n_ in own_nodes(f.node):
                        if isinstance(n_, ast.Assign) and any(isinstance(t_, ast.Name) and t_.id == B for t_ in n_.targets):
                            ds.append(n_.value)
                        elif isinstance(n_, ast.AnnAssign) and isinstance(n_.target, ast.Name) and n_.target.id == B and n_.value is not None:
                            ds.append(n_.value)
                        elif isinstance(n_, ast.AugAssign) and isinstance(n_.target, ast.Name) and n_.target.id == B:
                            # `last += 1` (include the line feed) is the only adjustment allowed
                            if not (isinstance(n_.op, ast.Add) and isinstance(n_.value, ast.Constant) and n_.value.value == 1):
                                aug_ok = False
                    if not aug_ok:
                        return ""

                    def emark(e: ast.AST | None) -> bool:
                        if e is None:
                            return False
                        if isinstance(e, ast.IfExp):
                            return emark(e.body) and emark(e.orelse)
                        if isinstance(e, ast.BinOp) and isinstance(e.op, ast.Add) and isinstance(e.right, ast.Constant) and e.right.value == 1:
                            return emark(e.left)
                        if isinstance(e, ast.Subscript) and isinstance(e.value, ast.Attribute) and e.value.attr == "eMarks":
                            return True
                        if isinstance(e, ast.Subscript) and isinstance(e.value, ast.Name):
                            # eMarks = self.eMarks (also as a component of a tuple assignment): a local that only holds the table
                            vals_ = []
                            for n2 in own_nodes(f.node):
                                if isinstance(n2, ast.Assign):
                                    for t2 in n2.targets:
                                        if isinstance(t2, ast.Name) and t2.id == e.value.id:
                                            vals_.append(n2.value)
                                        elif isinstance(t2, (ast.Tuple, ast.List)):
                                            for k2, x2 in enumerate(t2.elts):
                                                if isinstance(x2, ast.Name) and x2.id == e.value.id:
                                                    vals_.append(n2.value.elts[k2] if isinstance(n2.value, (ast.Tuple, ast.List))
                                                                 and len(n2.value.elts) == len(t2.elts) else None)
                            return bool(vals_) and all(isinstance(v2, ast.Attribute) and v2.attr == "eMarks" for v2 in vals_)
                        return False
                    if ds and all(emark(d) for d in ds):
                        return _GETLINES_WHY
                    params_ = [a_.arg for a_ in f.node.args.posonlyargs + f.node.args.args]
                    if not ds and B in params_:
                        # the bound is passed in: every caller passes eMarks[..] (+ 1), directly or through a local that holds it
                        from ..interproc import actuals
                        acts = actuals(bounds.c, f, B)
                        ok_all = bool(acts)
                        for (caller, a_, cs_) in acts:
                            if emark(a_):
                                continue
                            if isinstance(a_, ast.Name):
                                cds = [n_.value for n_ in own_nodes(caller.node) if isinstance(n_, ast.Assign)
                                       and any(isinstance(t_, ast.Name) and t_.id == a_.id for t_ in n_.targets)]
                                augs = [n_ for n_ in own_nodes(caller.node) if isinstance(n_, ast.AugAssign) and isinstance(n_.target, ast.Name)
                                        and n_.target.id == a_.id]
                                if cds and all(emark(d) for d in cds) and all(isinstance(g_.op, ast.Add) and isinstance(g_.value, ast.Constant)
                                                                              and g_.value.value == 1 for g_ in augs):
                                    continue
                            ok_all = False
                        if ok_all:
                            return _GETLINES_WHY
        q = f.module.parents.get(q)
    return ""


def _in_try_indexerror(f: Func, node: ast.AST) -> bool:
    parents = f.module.parents
    p: ast.AST | None = node
    while p is not None and p is not f.node:
        c = p
        p = parents.get(p)
        if isinstance(p, ast.Try) and c in p.body:
            for h in p.handlers:
                if h.type is None:
                    return True
                names = [U(x) for x in (h.type.elts if isinstance(h.type, ast.Tuple) else [h.type])]
                if any(n.split(".")[-1] in INDEX_ERRORS for n in names):
                    return True
    return False


class Bounds:
    """Which terms are upper bounds (<= len) of a given string expression inside one function."""

    def __init__(self, c: Ctx, f: Func) -> None:
        self.c, self.f = c, f
        self.sc = c.tf.scope(f)
        self.defs: dict[str, list[ast.AST | None]] = {}
        for n in own_nodes(f.node):
            if isinstance(n, ast.Name) and isinstance(n.ctx, ast.Store):
                par = f.module.parents.get(n)
                val: ast.AST | None = None
                if isinstance(par, ast.Assign) and n in par.targets:
                    val = par.value
                elif isinstance(par, ast.AnnAssign) and par.target is n:
                    val = par.value
                self.defs.setdefault(n.id, []).append(val)
        a = f.node.args
        for p in a.posonlyargs + a.args + a.kwonlyargs:
            self.defs.setdefault(p.arg, []).append(None)
        self._cache: dict[tuple[str, str], bool] = {}

    def canon(self, s: ast.AST) -> ast.AST:
        """A local alias of the source (src = state.src) denotes the source itself."""
        if isinstance(s, ast.Name):
            ds = self.defs.get(s.id)
            if ds and all(isinstance(d, ast.Attribute) and d.attr == "src" for d in ds) and len({U(d) for d in ds}) == 1:
                return ds[0]          # type: ignore[return-value]
        return s

    def state_root(self, s: ast.AST) -> tuple[str, str] | None:
        """('inline'|'block', root text) if s is <state>.src for a parser state object."""
        s = self.canon(s)
        if isinstance(s, ast.Attribute) and s.attr == "src":
            t = self.sc.type(s.value)
            if t == "StateInline":
                return ("inline", U(s.value))
            if t == "StateBlock":
                return ("block", U(s.value))
        return None

    def is_bound(self, term: str, s: ast.AST, seen: frozenset[str] = frozenset()) -> bool:
        stext = U(s)
        if term == f"len({stext})" or term == f"len({U(self.canon(s))})":
            return True
        sr = self.state_root(s)
        if sr is not None:
            kind, root = sr
            if kind == "inline" and term == f"{root}.posMax":
                return True
            if kind == "block" and re.fullmatch(re.escape(root) + r"\.eMarks\[[^\[\]]*\]", term):
                return True
        if re.fullmatch(r"[A-Za-z_]\w*", term) and term not in seen:
            ds = self.defs.get(term)
            if ds and all(d is not None and self._bound_expr(d, s, seen | {term}) for d in ds):
                return True
            if ds == [None] and self._param_bound(term, self.canon(s)):
                return True
        return False

    def _param_bound(self, pname: str, s: ast.AST, depth: int = 0) -> bool:
        """Parameter `pname` bounds the string `s` (a str parameter, or <param>.src) if at every call site of this function the
        actual for pname is a bound (in the caller) of the corresponding string: the helper contract `maximum <= len(string)`."""
        f = self.f
        params = [a.arg for a in f.node.args.posonlyargs + f.node.args.args]
        root = s
        while isinstance(root, ast.Attribute):
            root = root.value
        if pname not in params or not isinstance(root, ast.Name) or root.id not in params or depth > 3:
            return False
        key = ("param", pname + "|" + U(s))
        if key in self._cache:
            return self._cache[key]
        self._cache[key] = False
        sites = self.c.cg.callers.get(f, [])
        ok = bool(sites)
        for cs in sites:
            ap = self.c.eff.arg_for_param(cs, f, pname)
            ar = self.c.eff.arg_for_param(cs, f, root.id)
            if ap is None or ar is None:
                ok = False
                break
            # the string as the caller sees it: the root parameter replaced by its actual
            if isinstance(s, ast.Name):
                as_: ast.AST = ar
            else:
                import copy
                as_ = copy.deepcopy(s)
                node = as_
                while isinstance(node, ast.Attribute) and isinstance(node.value, ast.Attribute):
                    node = node.value
                node.value = ar          # type: ignore[attr-defined]
            cb = Bounds(self.c, cs.caller)
            l = lin(ap)
            good = l is not None and l[0] is not None and l[1] <= 0 and cb.is_bound(l[0], as_)
            if not good and isinstance(ap, ast.Name):
                # flow-sensitive: the definitions of the actual that reach this call
                from ..reach import Reaching
                ds = Reaching(self.c.cfg(cs.caller)).at_ast(cs.node, ap.id)
                good = bool(ds) and all(d.kind == "assign" and d.value is not None and cb._bound_expr(d.value, as_, frozenset({ap.id})) for d in ds)
            if not good:
                ok = False
                break
        self._cache[key] = ok
        return ok

    def _bound_expr(self, d: ast.AST, s: ast.AST, seen: frozenset[str]) -> bool:
        l = lin(d)
        if l is None or l[0] is None:
            return False
        return l[1] <= 0 and self.is_bound(l[0], s, seen)


def _entry_contracts(c: Ctx) -> dict[Func, list[tuple[str, str, int, str]]]:
    """Function -> entry facts [(a, b, k, description)]  meaning a - b <= k on entry."""
    out: dict[Func, list[tuple[str, str, int, str]]] = {}
    for reg in c.reg.rules["inline"]:
        st = reg.func.node.args.args[0].arg
        out.setdefault(reg.func, []).append((f"{st}.pos", f"{st}.posMax", -1, "inline rule contract: pos < posMax at dispatch"))
    sk = c.p.func("parser_inline.py:ParserInline.skipToken")
    st = sk.node.args.args[1].arg
    out[sk] = [(f"{st}.pos", f"{st}.posMax", -1, "skipToken contract: pos < posMax at its call sites")]
    sd = c.p.func("rules_inline/state_inline.py:StateInline.scanDelims")
    a = sd.node.args.args
    out[sd] = [(a[1].arg, f"{a[0].arg}.posMax", -1, "scanDelims contract: start < posMax at its call sites")]
    return out


def bnd_facts(c: Ctx, f: Func, entry: Facts | None = None):
    """Facts analysis of f under the verified rule contracts (rule PROG): calls into the inline phase leave posMax alone."""
    from ..facts import analyse
    from .prog_rules import contract_call_kills
    cache = c.__dict__.setdefault("_bnd_facts", {})
    key = (f, entry is not None)
    if key not in cache:
        cfg = c.cfg(f)
        cache[key] = (cfg, analyse(cfg, entry, contract_call_kills(c, f), c.bool_summary))
    return cache[key]


def _first_entry_facts(cfg: CFG, res: dict, for_node: Node) -> Facts | None:
    """Facts on the edges entering a `for` head from outside the loop."""
    loop = for_node.ast
    inside = {id(x) for b in loop.body for x in ast.walk(b)}          # type: ignore[attr-defined]
    acc: Facts | None = None
    for (p, label) in for_node.pred:
        if p.ast is not None and id(p.ast) in inside:
            continue                      # back edge / continue from the loop body
        st = res.get(p.id)
        if st is None:
            continue
        out = FactsProblem(cfg).edge(p, st, label, for_node)
        if out is None:
            continue
        acc = out if acc is None else acc.join(out)
    return acc


def _check_contract_sites(c: Ctx, r: RuleResult, contracts: dict[Func, list[tuple[str, str, int, str]]]) -> dict[Func, bool]:
    """Validate each contract at every call / dispatch site of the function.  -> function -> validated?"""
    phase = c.cg.api_phase()
    # a private helper that contains the dispatch loop (extract-method) inherits the contract if every call of it establishes it
    for g in sorted(phase, key=lambda x: x.qual):
        if g in contracts:
            continue
        for cs in c.cg.sites.get(g, []):
            tg = [f for f in cs.callees if f in contracts]
            if not tg or not cs.kind.startswith("dispatch:inline") or not cs.node.args or not isinstance(cs.node.args[0], ast.Name):
                continue
            stp = cs.node.args[0].id
            if stp not in [a.arg for a in g.node.args.posonlyargs + g.node.args.args]:
                continue
            callers = [x for x in c.cg.callers.get(g, []) if not x.kind.startswith("dispatch:")]
            good = bool(callers)
            for x in callers:
                arg = c.eff.arg_for_param(x, g, stp)
                if arg is None:
                    good = False
                    break
                gz = Facts()
                for (a0, b0, k0, _) in contracts.get(x.caller, []):
                    gz.add(a0, b0, k0)
                xcfg, xres = bnd_facts(c, x.caller, gz if gz.d else None)
                st_txt = U(arg)
                for n in xcfg.owner(x.node):
                    z = xres.get(n.id)
                    if z is not None and not _entails_le(z, f"{st_txt}.pos", f"{st_txt}.posMax", -1):
                        good = False
            if good:
                contracts[g] = [(f"{stp}.pos", f"{stp}.posMax", -1, f"derived: every call of {g.short} is made with pos < posMax")]
            break
    ok: dict[Func, bool] = {f: True for f in contracts}
    seen_any: dict[Func, int] = {f: 0 for f in contracts}
    for g in sorted(phase, key=lambda x: x.qual):
        for cs in c.cg.sites.get(g, []):
            targets = [f for f in cs.callees if f in contracts]
            if not targets:
                continue
            gz = Facts()
            for (a0, b0, k0, _) in contracts.get(g, []):
                gz.add(a0, b0, k0)          # the caller's own contract is assumed while checking its callees' (induction on depth)
            cfg, res = bnd_facts(c, g, gz if gz.d else None)
            call = cs.node
            holds_all = True
            why = ""
            for f in targets:
                seen_any[f] += 1
            # substitute: contract is on callee parameter names -> caller argument texts
            f0 = targets[0]
            for (a, b, k, desc) in contracts[f0]:
                ca, cb = _subst(c, cs, f0, a), _subst(c, cs, f0, b)
                if ca is None or cb is None:
                    holds_all, why = False, f"cannot express {a} / {b} at the call site"
                    break
                good = False
                if cs.kind.startswith("dispatch:"):
                    # rule dispatch inside a for loop: the contract must hold when the loop is entered, and nothing in the
                    # loop body other than the dispatched rules may write the cursor (IR-2 covers rules returning False)
                    loop = _enclosing_for(g, call)
                    if loop is not None:
                        heads = [n for n in cfg.nodes if n.kind == "for" and n.ast is loop]
                        z = None
                        for h in heads:
                            zz = _first_entry_facts(cfg, res, h)
                            z = zz if z is None else (z.join(zz) if zz is not None else z)
                        if z is not None and _entails_le(z, ca, cb, k):
                            bad = _other_cursor_writes(c, g, loop, call, {ca, cb})
                            if not bad:
                                good = True
                            else:
                                why = f"loop body also writes {bad}"
                        else:
                            why = f"{ca} - {cb} <= {k} is not established where the dispatch loop is entered"
                else:
                    for n in cfg.owner(call):
                        z = res.get(n.id)
                        if z is None:
                            good = True
                            continue
                        z = expr_local(z, call, n.ast, g.module.parents) if n.ast is not None else z
                        good = _entails_le(z, ca, cb, k)
                        if not good:
                            why = f"{ca} - {cb} <= {k} is not entailed at the call"
                            break
                if not good:
                    holds_all = False
                    break
            key = f"contract|{g.short}|{alpha(g, call)}"
            names = ",".join(sorted({f.short for f in targets}))[:120]
            if holds_all:
                r.add(key, c.where(g, call), g.short, U(call)[:80], "discharged",
                      f"entry contract of {names} holds at this site ({contracts[f0][0][3]})")
            else:
                r.add(key, c.where(g, call), g.short, U(call)[:80], "violation",
                      f"entry contract of {names} not established here: {why}")
                for f in targets:
                    ok[f] = False
    for f, n in seen_any.items():
        if n == 0 and not any("derived" in d[3] for d in contracts.get(f, [])):
            ok[f] = False
    return ok


def _entails_le(z: Facts, a: str, b: str, k: int) -> bool:
    if z.entails(a, b, k):
        return True
    # through a local alias of the bound (end = state.posMax)
    for (x, kk) in z.upper_bounds(a):
        if z.entails(x, b, k - kk) and kk <= k:
            return True
    return False


def _subst(c: Ctx, cs: Any, f: Func, term: str) -> str | None:
    """Rewrite a term over the callee's parameter names into the caller's argument texts."""
    m = re.match(r"([A-Za-z_]\w*)(.*)", term)
    if not m:
        return term
    pname, rest = m.group(1), m.group(2)
    params = [a.arg for a in f.node.args.posonlyargs + f.node.args.args]
    if pname not in params:
        return term
    if cs.kind.startswith("dispatch:"):
        idx = params.index(pname)
        if idx < len(cs.node.args):
            return U(cs.node.args[idx]) + rest
        return None
    arg = c.eff.arg_for_param(cs, f, pname)
    if arg is None:
        return None
    l = lin(arg)
    if rest == "" and l is not None and l[1] == 0:
        return T(l[0])
    return U(arg) + rest


def _enclosing_for(g: Func, node: ast.AST) -> ast.For | None:
    p = g.module.parents.get(node)
    while p is not None and p is not g.node:
        if isinstance(p, ast.For):
            return p
        if isinstance(p, ast.While):
            return None
        p = g.module.parents.get(p)
    return None


def _other_cursor_writes(c: Ctx, g: Func, loop: ast.For, dispatch: ast.Call, terms: set[str]) -> str:
    """Stores to the contract's terms inside the loop body other than through the dispatch call itself."""
    body_nodes = [x for b in loop.body for x in ast.walk(b)]          # the `else:` clause of a for runs after the loop, not in it
    for s in body_nodes:
        if s is dispatch:
            continue
        tg: list[ast.AST] = []
        if isinstance(s, ast.Assign):
            tg = list(s.targets)
        elif isinstance(s, (ast.AugAssign, ast.AnnAssign)):
            tg = [s.target]
        for t in tg:
            if U(t) in terms:
                return U(t)
        if isinstance(s, ast.Call) and s is not dispatch:
            cs = c.cg.site_of.get(s)
            if cs is not None and cs.callees:
                for (root, fld) in c.eff.site_writes(cs):
                    if f"{root}.{fld}" in terms or (fld == "*" and any(t.startswith(root + ".") for t in terms)):
                        return f"{root}.{fld} (via {U(s.func)})"
    return ""


# ------------------------------------------------------------------------------------------------ block non-blank contract
def block_nonblank_chains(c: Ctx, r: RuleResult | None = None) -> dict[str, bool]:
    """alt chain name ('' = main) -> does every dispatch site of that chain run only on non-blank lines?"""
    out: dict[str, bool] = {}
    found: dict[str, int] = {}
    for g in sorted(c.cg.api_phase(), key=lambda x: x.qual):
        for cs in c.cg.sites.get(g, []):
            if not cs.kind.startswith("dispatch:block:"):
                continue
            alt = cs.kind.split(":", 2)[2]
            found[alt] = found.get(alt, 0) + 1
            call = cs.node
            st = U(call.args[0]) if call.args else "state"
            line = call.args[1] if len(call.args) > 1 else None
            ok, how = _nonblank_at(c, g, call, st, line, call.args[2] if len(call.args) > 2 else None, 0)
            out[alt] = out.get(alt, True) and ok
            if r is not None:
                r.add(f"nonblank|{g.short}|{alt}", c.where(g, call), g.short, U(call)[:80], "discharged",
                      (f"chain '{alt}' dispatch: " + how) if ok else
                      f"chain '{alt}' dispatch does not establish a non-blank line (rules on this chain must guard their first read)")
    # the main chain plus the terminator chains; rules may share one dispatching helper, so the count is a sanity floor only
    if len(found) < 3:
        raise AnchorError(f"only {len(found)} block dispatch sites found (expected main + terminator chains)")
    return out


def _nonblank_at(c: Ctx, g: Func, call: ast.Call, st: str, line: ast.AST | None, end: ast.AST | None, depth: int) -> tuple[bool, str]:
    """Is the line handed to the dispatch at `call` (in g) known to be non-blank?  When the dispatch sits in a private helper
    that receives the line as a parameter, the question is asked at every call of the helper."""
    if line is None:
        return False, "no non-blank fact for the dispatched line"
    cfg, res = c.facts(g)
    ltxt = U(line)
    hows = []
    for n in cfg.owner(call):
        z = res.get(n.id)
        if z is None:
            continue
        z = expr_local(z, call, n.ast, g.module.parents) if n.ast is not None else z
        if z.holds(f"{st}.isEmpty({ltxt})", False):
            hows.append(f"dominated by a false test of {st}.isEmpty({ltxt})")
            continue
        if z.entails(f"{st}.bMarks[{ltxt}] + {st}.tShift[{ltxt}]", f"{st}.eMarks[{ltxt}]", -1):
            hows.append(f"dominated by bMarks[{ltxt}] + tShift[{ltxt}] < eMarks[{ltxt}]")
            continue
        rd = _single_reaching_call(c, g, call, line)
        if rd == "skipEmptyLines" and end is not None and z.entails(ltxt, U(end), -1):
            hows.append(f"{ltxt} is the result of skipEmptyLines (first non-blank line or lineMax) and {ltxt} < {U(end)} "
                        f"(assumed <= lineMax) at the dispatch")
            continue
        # the line is a parameter of a private helper: lift to the helper's call sites
        params = [a.arg for a in g.node.args.posonlyargs + g.node.args.args]
        callers = [x for x in c.cg.callers.get(g, []) if x.kind in ("direct", "method")]
        if isinstance(line, ast.Name) and line.id in params and callers and depth < 2 \
                and not any(isinstance(t_, ast.Name) and t_.id == line.id and isinstance(t_.ctx, ast.Store) for t_ in own_nodes(g.node)):
            sub_ok = True
            sub_how = ""
            for x in callers:
                a_line = c.eff.arg_for_param(x, g, line.id)
                a_st = c.eff.arg_for_param(x, g, st) if st in params else None
                a_end = c.eff.arg_for_param(x, g, end.id) if isinstance(end, ast.Name) and end.id in params else None
                if a_line is None or a_st is None:
                    sub_ok = False
                    break
                o_, h_ = _nonblank_at(c, x.caller, x.node, U(a_st), a_line, a_end, depth + 1)
                if not o_:
                    sub_ok = False
                    break
                sub_how = f"at the call of {g.short} in {x.caller.short}: {h_}"
            if sub_ok:
                hows.append(sub_how)
                continue
        return False, "no non-blank fact for the dispatched line"
    return (True, hows[0]) if hows else (False, "no non-blank fact for the dispatched line")


def _single_reaching_call(c: Ctx, g: Func, at: ast.AST, name_expr: ast.AST) -> str | None:
    if not isinstance(name_expr, ast.Name):
        return None
    from ..reach import Reaching
    rd = Reaching(c.cfg(g))
    ds = rd.at_ast(at, name_expr.id)
    names = set()
    for d in ds:
        v = d.value
        if d.kind == "assign" and isinstance(v, ast.Call):
            names.add(U(v.func).split(".")[-1])
        else:
            return None
    return names.pop() if len(names) == 1 else None


def block_rule_contracts(c: Ctx, chains_ok: dict[str, bool]) -> dict[Func, list[tuple[str, str, int, str]]]:
    out: dict[Func, list[tuple[str, str, int, str]]] = {}
    for reg in c.reg.rules["block"]:
        chains = [""] + list(reg.alt)
        if all(chains_ok.get(ch, False) for ch in chains):
            a = reg.func.node.args.args
            st, ln = a[0].arg, a[1].arg
            out[reg.func] = [(f"{st}.bMarks[{ln}] + {st}.tShift[{ln}]", f"{st}.eMarks[{ln}]", -1,
                              "block rule dispatched only on non-blank lines (all its chains establish it)")]
    return out


# ------------------------------------------------------------------------------------------------ invariants behind the bounds
def _bound_invariants(c: Ctx, r: RuleResult) -> None:
    """posMax / eMarks are only ever set to values <= len(src): who-may-write with the accepted forms."""
    for f in c.p.all_funcs():
        for n in own_nodes(f.node):
            tg: list[ast.AST] = []
            val: ast.AST | None = None
            if isinstance(n, ast.Assign):
                tg, val = list(n.targets), n.value
            elif isinstance(n, ast.AugAssign):
                tg, val = [n.target], None
            elif isinstance(n, ast.AnnAssign) and n.value is not None:
                tg, val = [n.target], n.value
            for t in tg:
                if isinstance(t, ast.Attribute) and t.attr == "posMax" and c.tf.scope(f).type(t.value) == "StateInline":
                    how = _posmax_store_ok(c, f, n, val)
                    key = f"posMax-store|{f.short}|{alpha(f, n)}"
                    if how:
                        r.add(key, c.where(f, n), f.short, U(n), "discharged", how)
                    else:
                        r.add(key, c.where(f, n), f.short, U(n), "violation",
                              "store to posMax that is neither len(src), a restore of the value saved on entry, nor a label end "
                              "returned by parseLinkLabel: posMax would no longer bound the source")
                base = t.value if isinstance(t, ast.Subscript) else t
                if isinstance(base, ast.Attribute) and base.attr == "eMarks" and c.tf.scope(f).type(base.value) == "StateBlock":
                    key = f"eMarks-store|{f.short}|{alpha(f, n)}"
                    if f.short == "StateBlock.__init__":
                        r.add(key, c.where(f, n), f.short, U(n), "discharged", "line-end table initialised by the constructor")
                    else:
                        r.add(key, c.where(f, n), f.short, U(n), "violation",
                              "store to the line-end table outside StateBlock.__init__: eMarks[...] would no longer bound the source")
            if isinstance(n, ast.Call) and isinstance(n.func, ast.Attribute) and n.func.attr in ("append", "insert", "extend", "pop"):
                b = n.func.value
                if isinstance(b, ast.Attribute) and b.attr == "eMarks" and c.tf.scope(f).type(b.value) == "StateBlock":
                    key = f"eMarks-store|{f.short}|{alpha(f, n)}"
                    ctor = c.p.func("rules_block/state_block.py:StateBlock.__init__")
                    only_ctor = f.module is ctor.module and bool(c.cg.callers.get(f)) and all(
                        cs_.caller is ctor for cs_ in c.cg.callers.get(f, []))
                    if f.short == "StateBlock.__init__" or only_ctor:
                        r.add(key, c.where(f, n), f.short, U(n), "discharged",
                              "line-end table filled by the constructor" + (" (through a helper only it calls)" if only_ctor else "") +
                              " (assumed: with positions of the scan, <= len(src))")
                    else:
                        r.add(key, c.where(f, n), f.short, U(n), "violation", "eMarks mutated outside the constructor")


def _init_emark_ok(f: Func, arg: ast.AST) -> bool:
    names = {x.id for x in ast.walk(arg) if isinstance(x, ast.Name)}
    if isinstance(arg, ast.Call) and U(arg.func) == "len":
        return True
    return bool(names) and all(n in ("pos", "length", "start") or n.startswith("s") for n in names) and not any(
        isinstance(x, ast.BinOp) and isinstance(x.op, ast.Add) for x in ast.walk(arg))


def _posmax_store_ok(c: Ctx, f: Func, stmt: ast.AST, val: ast.AST | None) -> str:
    if val is None:
        return ""
    if isinstance(val, ast.Call) and U(val.func) == "len" and f.name == "__init__":
        return "constructor: posMax = len(src)"
    if isinstance(val, ast.Name):
        from ..reach import Reaching
        rd = Reaching(c.cfg(f))
        ds = rd.at_ast(stmt, val.id)
        kinds = set()
        for d in ds:
            v = d.value
            if d.kind == "param":
                # a helper's parameter: every caller must pass such a value
                sites = [x for x in c.cg.callers.get(f, []) if x.kind in ("direct", "method")]
                if not sites or len(sites) != len(c.cg.callers.get(f, [])):
                    return ""
                for x in sites:
                    a_ = c.eff.arg_for_param(x, f, val.id)
                    how_ = _posmax_store_ok(c, x.caller, x.node, a_) if a_ is not None else ""
                    if not how_:
                        return ""
                    kinds.add("restore" if how_.startswith("restore") else "labelEnd")
                continue
            if d.kind == "assign" and isinstance(v, ast.Attribute) and v.attr == "posMax":
                # restore: the saving read must see the entry value (no earlier store on any path)
                kinds.add("restore")
            elif d.kind == "assign" and isinstance(v, ast.Call):
                cs = c.cg.site_of.get(v)
                if cs is not None and cs.callees and all(g.name == "parseLinkLabel" for g in cs.callees):
                    kinds.add("labelEnd")
                else:
                    return ""
            else:
                return ""
        if kinds == {"restore"}:
            return "restore of the value read from posMax earlier in the function"
        if kinds == {"labelEnd"}:
            return "label end returned by parseLinkLabel (found while pos < posMax, hence below the old posMax)"
    return ""


# ------------------------------------------------------------------------------------------------ the rule
def _is_source_string(c: Ctx, f: Func, s: ast.Subscript) -> bool:
    if isinstance(s.slice, ast.Slice) or not isinstance(s.ctx, ast.Load):
        return False
    if c.tf.scope(f).type(s.value) != "str":
        return False
    if isinstance(s.value, ast.Name):
        pass
    # configuration values (options.quotes[i]) are not source text - also through a local that only ever holds one
    for n in ast.walk(s.value):
        if isinstance(n, ast.Attribute) and n.attr == "options":
            return False
    if isinstance(s.value, ast.Name):
        ds = [n_.value for n_ in own_nodes(f.node) if isinstance(n_, ast.Assign) and any(isinstance(t, ast.Name) and t.id == s.value.id for t in n_.targets)]
        if ds and s.value.id not in {a.arg for a in f.node.args.args + f.node.args.kwonlyargs} \
                and all(any(isinstance(x, ast.Attribute) and x.attr == "options" for x in ast.walk(d)) for d in ds):
            return False
    return True


def _module_funcs(c: Ctx, f: Func) -> set[str]:
    """Short names of the functions the reviewed exemptions of this module were written for (the module's functions at review
    time are named in EXEMPT; a helper extracted from one of them lives in the same module)."""
    return {k[0] for k in EXEMPT if any(g.short == k[0] and g.module is f.module for g in c.p.all_funcs())} | \
           {k[0] for k in EXEMPT if k[0].split(".")[0] == (f.cls or "")}


def _derived_param_facts(c: Ctx, f: Func, contracts: dict, valid: dict, blk: dict, depth: int = 0) -> list[tuple[str, str, int]]:
    if depth > 1 or f.cls is not None and not f.name.startswith("_"):
        return []
    if f.cls is None and not f.name.startswith("_"):
        return []
    sites = c.cg.callers.get(f, [])
    if not sites or any(cs.kind not in ("direct", "method") for cs in sites):
        return []
    params = [a.arg for a in f.node.args.posonlyargs + f.node.args.args]
    acc: Facts | None = None
    for cs in sites:
        g = cs.caller
        gz = Facts()
        for (a0, b0, k0, _) in (contracts.get(g, []) if valid.get(g, False) else []) + blk.get(g, []):
            gz.add(a0, b0, k0)
        if not gz.d:
            for (a0, b0, k0) in _derived_param_facts(c, g, contracts, valid, blk, depth + 1):
                gz.add(a0, b0, k0)
        gcfg, gres = bnd_facts(c, g, gz if gz.d else None)
        amap = {}
        for pn in params:
            a = c.eff.arg_for_param(cs, f, pn)
            la = lin(a) if a is not None else None
            if la is not None and la[0] is not None:
                amap[pn] = la
        e1 = Facts()
        got = False
        for nd in gcfg.owner(cs.node):
            z = gres.get(nd.id)
            if z is None:
                continue
            z = z.copy()
            if nd.ast is not None:
                rt = next((x for x in CFG.roots(nd) if _contains(x, cs.node)), nd.ast)
                z = expr_local(z, cs.node, rt, g.module.parents)
            z.close()
            got = True
            for p1, (t1, o1) in amap.items():
                for p2, (t2, o2) in amap.items():
                    if p1 != p2:
                        k = 0 if t1 == t2 else z.d.get((t1, t2))
                        if k is not None:
                            e1.add(p1, p2, k + o1 - o2)
        if not got:
            continue
        acc = e1 if acc is None else acc.join(e1)
    if acc is None:
        return []
    acc.close()
    return [(a, b, k) for (a, b), k in acc.d.items()]


def rule_bnd(c: Ctx, wide: bool = False) -> RuleResult:
    r = RuleResult("BND", "every integer subscript of a source string is in range on every path (try/IndexError, entailed "
                          "bound, validated entry contract, or reviewed exemption)")
    phase = c.cg.api_phase()
    contracts = _entry_contracts(c)
    chains_ok = block_nonblank_chains(c, r)
    blk = block_rule_contracts(c, chains_ok)
    valid = _check_contract_sites(c, r, contracts)
    _bound_invariants(c, r)
    r.notes.append("block chains that establish a non-blank dispatched line: " +
                   ", ".join(f"'{k}'={'yes' if v else 'no'}" for k, v in sorted(chains_ok.items())))
    r.notes.append("block rules with the non-blank entry contract: " + ", ".join(sorted(f.short for f in blk)))
    used_exempt: set[tuple[str, str]] = set()
    used_prov: set[str] = set()
    n_sites = 0
    for f in sorted(phase, key=lambda x: x.qual):
        subs = [s for s in own_nodes(f.node) if isinstance(s, ast.Subscript) and _is_source_string(c, f, s)]
        if not subs:
            continue
        r.functions += 1
        ez = Facts()
        descs = []
        for (a, b, k, desc) in contracts.get(f, []) if valid.get(f, False) else []:
            ez.add(a, b, k)
            descs.append(desc)
        for (a, b, k, desc) in blk.get(f, []):
            ez.add(a, b, k)
            descs.append(desc)
        if not ez.d:
            # a private helper: what every call site establishes between its integer parameters (derived contract - it holds
            # by construction, being the join of the facts at all its call sites)
            for (a, b, k) in _derived_param_facts(c, f, contracts, valid, blk):
                ez.add(a, b, k)
                descs.append(f"{a} - {b} <= {k} at every call site")
        cfg, res = bnd_facts(c, f, ez if ez.d else None)
        cfg0, res0 = (cfg, res) if not ez.d else bnd_facts(c, f)
        r.paths += min(cfg.paths_count(), 10**6)
        bounds = Bounds(c, f)
        for s in sorted(subs, key=lambda x: (x.lineno, x.col_offset)):
            n_sites += 1
            key = f"{f.short}|{alpha(f, s)}"
            where = c.where(f, s)
            if f.name in ("charCodeAt", "charStrAt") and _in_try_indexerror(f, s):
                r.add(key, where, f.short, U(s), "discharged", "total accessor: the read is inside try/except IndexError")
                continue
            if _in_try_indexerror(f, s):
                r.add(key, where, f.short, U(s), "discharged", "inside a try whose handler catches IndexError")
                continue
            how = _by_facts(c, f, cfg, res, bounds, s)
            if not how and isinstance(s.slice, ast.Constant) and isinstance(s.slice.value, int) and s.slice.value >= 0:
                w = _min_len(c, f, s.value, s)
                if w is not None and w > s.slice.value:
                    how = f"the string is a regex group at least {w} character(s) long on every path (constant index {s.slice.value})"
            if how and ez.d:
                # was the contract needed?
                how0 = _by_facts(c, f, cfg0, res0, bounds, s)
                if not how0:
                    how = how + " [using " + "; ".join(descs) + "]"
            if how:
                r.add(key, where, f.short, U(s), "discharged", how)
                continue
            why = _prov_exempt(f, bounds, s) or _getlines_exempt(f, bounds, s)
            if why:
                used_prov.add(why)
                r.add(key, where, f.short, U(s), "exempt", why)
                continue
            ek = (f.short, alpha(f, s))
            if ek not in EXEMPT:
                # the same construct moved into a helper of the same module (extract-method refactoring)
                same = [k for k in EXEMPT if k[1] == ek[1] and k[0] in _module_funcs(c, f)]
                if same:
                    ek = same[0]
            if ek in EXEMPT:
                used_exempt.add(ek)
                r.add(key, where, f.short, U(s), "exempt", EXEMPT[ek])
                continue
            r.add(key, where, f.short, U(s), "violation",
                  f"no bound established for index `{U(s.slice)}` of `{U(s.value)}` on some path: not inside try/except IndexError, "
                  f"no dominating comparison with a bound of the string (len / posMax / eMarks[..]), no entry contract, no exemption "
                  f"(alpha key: {ek[1]})")
    for (rel, allowed, off, why) in PROV_EXEMPT:
        if why not in used_prov:
            r.notes.append(f"unused exemption {rel} {sorted(allowed)} (the construct it describes is no longer present in this form)")
    for ek in EXEMPT:
        if ek not in used_exempt:
            r.notes.append(f"unused exemption {ek} (the construct it describes is no longer present in this form)")
    r.floor = 78 + 10
    return r


def _by_facts(c: Ctx, f: Func, cfg: CFG, res: dict, bounds: Bounds, s: ast.Subscript) -> str:
    l = lin(s.slice)
    if l is None:
        return ""
    term, off = T(l[0]), l[1]
    owners = cfg.owner(s)
    if not owners:
        return ""
    hows = []
    for n in owners:
        z = res.get(n.id)
        if z is None:
            hows.append("unreachable")
            continue
        z = z.copy()
        root = n.ast
        if root is not None and n.kind == "stmt":
            # calls evaluated before the subscript inside the same statement may write what the facts mention
            from .prog_rules import contract_call_kills
            prob = FactsProblem(cfg, None, contract_call_kills(c, f))
            for call in ast.walk(root):
                if isinstance(call, ast.Call) and _before(call, s) and not _contains(call, s):
                    prob.apply_calls(z, call)
        if root is not None:
            roots = CFG.roots(n)
            rt = next((x for x in roots if _contains(x, s)), root)
            z = expr_local(z, s, rt, f.module.parents)
        found = ""
        for (b, k) in z.upper_bounds(term):
            if k <= -1 - off and bounds.is_bound(b, s.value):
                found = f"facts: {term}{off:+d} < {b}" if off else f"facts: {term} < {b}"
                break
        if not found:
            return ""
        hows.append(found)
    real = [h for h in hows if h != "unreachable"]
    return real[0] if real else "unreachable code"


def _before(a: ast.AST, b: ast.AST) -> bool:
    return (getattr(a, "end_lineno", 0), getattr(a, "end_col_offset", 0)) <= (b.lineno, b.col_offset)


def _contains(a: ast.AST, b: ast.AST) -> bool:
    return any(x is b for x in ast.walk(a))


# ------------------------------------------------------------------------------------------------ TOKBND
RECORD_REASON = ("the index is read from a record (delimiter.token / .end / .jump, a stack entry) that was written with an index "
                 "valid at that moment; token and delimiter lists only grow while those records are alive (rule PUSH: only push "
                 "adds tokens) - a data invariant of the delimiter machinery, not a bound the zone domain can carry")


def _record_field(l: ast.AST) -> bool:
    if isinstance(l, ast.Attribute) and l.attr in ("token", "end"):
        return True
    return isinstance(l, ast.Subscript) and isinstance(l.slice, ast.Constant) and isinstance(l.slice.value, str)


def _record_list(f: Func, name: str, only: tuple[str, ...] | None = None) -> bool:
    """`name` is a local list that only ever receives record indices (x.token, x.end, one of those minus a constant); with `only`:
    fields of these names."""
    n_app = 0
    for n in own_nodes(f.node):
        if isinstance(n, ast.Assign) and any(isinstance(t, ast.Name) and t.id == name for t in n.targets):
            if not (isinstance(n.value, ast.List) and not n.value.elts):
                return False
        elif isinstance(n, ast.AnnAssign) and isinstance(n.target, ast.Name) and n.target.id == name:
            if n.value is not None and not (isinstance(n.value, ast.List) and not n.value.elts):
                return False
        elif isinstance(n, ast.Call) and isinstance(n.func, ast.Attribute) and isinstance(n.func.value, ast.Name) and n.func.value.id == name:
            if n.func.attr == "append" and n.args:
                v = n.args[0]
                while isinstance(v, ast.BinOp) and isinstance(v.op, ast.Sub) and isinstance(v.right, ast.Constant) and isinstance(v.right.value, int) \
                        and v.right.value >= 0:
                    v = v.left
                if not _record_field(v):
                    return False
                if only is not None:
                    fld = v.attr if isinstance(v, ast.Attribute) else v.slice.value          # type: ignore[attr-defined]
                    if fld not in only:
                        return False
                n_app += 1
            elif n.func.attr not in ("pop", "reverse", "clear", "sort"):
                return False
    return n_app > 0


def _record_value(c: Ctx, f: Func, e: ast.AST, at: ast.AST, depth: int = 0) -> bool:
    """e evaluates to a record index: a record field, a value popped from / iterated over a list of record indices, a local or a
    parameter all of whose sources are such values."""
    from ..reach import Reaching
    if depth > 3:
        return False
    if _record_field(e):
        return True
    if isinstance(e, ast.Call) and isinstance(e.func, ast.Attribute) and e.func.attr == "pop" and not e.args and isinstance(e.func.value, ast.Name):
        return _record_list(f, e.func.value.id)
    if isinstance(e, ast.Name):
        rds = Reaching(c.cfg(f)).at_ast(at, e.id)
        if not rds:
            return False
        for d in rds:
            if d.kind == "assign" and d.value is not None:
                if not _record_value(c, f, d.value, d.stmt, depth + 1):
                    return False
            elif d.kind == "for" and isinstance(d.stmt, ast.For) and isinstance(d.stmt.target, ast.Name):
                it = d.stmt.iter
                if isinstance(it, ast.Call) and isinstance(it.func, ast.Name) and it.func.id in ("reversed", "list", "sorted", "iter") and len(it.args) == 1:
                    it = it.args[0]
                if isinstance(it, ast.Subscript) and isinstance(it.slice, ast.Slice):
                    it = it.value
                if not (isinstance(it, ast.Name) and _record_list(f, it.id)):
                    return False
            elif d.kind == "param":
                sites = c.cg.callers.get(f, [])
                if not sites or any(cs.kind not in ("direct", "method") for cs in sites):
                    return False
                for cs in sites:
                    a = c.eff.arg_for_param(cs, f, e.id)
                    if a is None or not _record_value(c, cs.caller, a, cs.node, depth + 1):
                        return False
            else:
                return False
        return True
    return False


def _record_index(f: Func, sub: ast.Subscript, bounds: "Bounds") -> bool:
    """The index is a field of a record object (x.token, x.end, item['token']), a value popped from a list of such indices, or
    one of those minus a constant.  With a *positive* offset it is accepted only next to an equality test of the same
    expression against another record field (`delimiters[i - 1].end == startDelim.end + 1 and delimiters[startDelim.end + 1]...`)."""
    e = sub.slice
    ll = lin(e)
    off = 0
    l: ast.AST = e
    while isinstance(l, ast.BinOp) and isinstance(l.op, (ast.Add, ast.Sub)) and isinstance(l.right, ast.Constant) and isinstance(l.right.value, int):
        off += l.right.value if isinstance(l.op, ast.Add) else -l.right.value
        l = l.left
    rec = _record_field(l)
    if not rec and isinstance(l, ast.Name):
        from ..reach import Reaching
        rds = Reaching(bounds.c.cfg(f)).at_ast(sub, l.id)
        rec = bool(rds) and all(d.kind == "assign" and d.value is not None and (
            _record_field(d.value) or (isinstance(d.value, ast.Call) and isinstance(d.value.func, ast.Attribute)
                                       and d.value.func.attr == "pop" and not d.value.args)) for d in rds)
        if not rec:
            rec = _record_value(bounds.c, f, l, sub)
    if not rec:
        return False
    if off <= 0:
        return True
    # positive offset: an equality with another record field in the same conjunction
    txt = U(e)

    def has_eq(bo: ast.AST) -> bool:
        if isinstance(bo, ast.BoolOp) and isinstance(bo.op, ast.And):
            for v in bo.values:
                if isinstance(v, ast.Compare) and len(v.ops) == 1 and isinstance(v.ops[0], ast.Eq):
                    a_, b_ = v.left, v.comparators[0]
                    if (U(a_) == txt and _record_field(b_)) or (U(b_) == txt and _record_field(a_)):
                        return True
        return False
    q = f.module.parents.get(sub)
    while q is not None and q is not f.node:
        if has_eq(q):
            return True
        if isinstance(q, ast.If) and isinstance(q.test, ast.Name) and any(x is sub for b_ in q.body for x in ast.walk(b_)):
            # `if flag:` where flag is defined once, as a conjunction containing the equality
            # (or also initialised to a falsy constant: under `if flag:` the conjunction is the definition in force)
            ds = bounds.defs.get(q.test.id)
            live = [d for d in (ds or []) if not (isinstance(d, ast.Constant) and not d.value)]
            if ds and len(live) == 1 and live[0] is not None and has_eq(live[0]) and all(d is not None for d in ds):
                return True
        q = f.module.parents.get(q)
    return False


# reviewed, keyed by function and alpha-normalised subscript
TOK_EXEMPT = {
    ("processDelimiters", "P1[L_expr_]"):
        "openerIdx starts strictly below the closer's index (headerIdx - jump - 1 with headerIdx <= closerIdx < len) and only "
        "decreases; the loop condition keeps it above minOpenerIdx >= -1",
    ("processDelimiters", "P1[L_expr_ - 1]"):
        "guarded by openerIdx > 0 in the same conjunction; openerIdx is below the closer's index (see above)",
}


def rule_tokbnd(c: Ctx) -> RuleResult:
    r = RuleResult("TOKBND", "every variable subscript of a token list or delimiter list is below the length of that list on every path "
                             "(entailed by a dominating comparison / range / enumerate, inside try/except IndexError, the render-rule "
                             "contract idx < len(tokens) validated at the dispatch, or an index stored in a record)")
    LISTS = (("list", "Token"), ("list", "Delimiter"))
    # contract of render-rule methods: (self, tokens, idx, options, env) with idx < len(tokens)
    rr = set(c.reg.render_rules.values())
    rt = c.p.cls("RendererHTML").methods.get("renderToken")
    if rt is not None:
        rr.add(rt)
    n_sites = 0
    from ..facts import analyse
    from .prog_rules import contract_call_kills
    fcache: dict[Func, tuple] = {}

    def entry_of(f: Func, depth: int = 0) -> Facts | None:
        """Entry facts of f: the render-rule contract, or - for a private helper - what every call site establishes between its
        integer parameters and the lengths of its list parameters (derived contract, validated by construction)."""
        if f in rr and len(f.node.args.args) >= 3:
            z = Facts()
            z.add(f.node.args.args[2].arg, f"len({f.node.args.args[1].arg})", -1)
            return z
        if depth > 2 or f.cls is not None and not f.name.startswith("_"):
            return None
        sites = [cs for cs in c.cg.callers.get(f, []) if cs.kind in ("direct", "method")]
        if not sites or any(cs.kind.startswith("dispatch") for cs in c.cg.callers.get(f, [])):
            return None
        params = [a.arg for a in f.node.args.posonlyargs + f.node.args.args]
        acc: Facts | None = None
        for cs in sites:
            cfg_c, res_c = facts_of(cs.caller, depth + 1)
            e1 = Facts()
            amap = {}
            for pn in params:
                a = c.eff.arg_for_param(cs, f, pn)
                if a is not None:
                    amap[pn] = a
            for nd in cfg_c.owner(cs.node):
                z = res_c.get(nd.id)
                if z is None:
                    continue
                z.close()
                for pi, ai in amap.items():
                    li = lin(ai)
                    if li is None or li[0] is None:
                        continue
                    for pq, aq in amap.items():
                        if pq == pi:
                            continue
                        bound = f"len({U(aq)})"
                        k = z.d.get((T(li[0]), bound))
                        if k is not None:
                            e1.add(pi, f"len({pq})", k - li[1])
            # a record index handed to the helper together with the token list it indexes: the data invariant of the records
            # (RECORD_REASON) becomes part of the helper's entry contract
            for pi, ai in amap.items():
                if lin(ai) is not None and _record_value(c, cs.caller, ai, cs.node):
                    for pq, aq in amap.items():
                        if pq != pi and isinstance(aq, ast.Attribute) and aq.attr == "tokens":
                            e1.add(pi, f"len({pq})", -1)
            acc = e1 if acc is None else acc.join(e1)
        return acc if acc is not None and acc.d else None

    def popped_bounds(f: Func):
        """`i = marks.pop()` for a local list that only ever receives token indices taken from records (x.token - k, item["token"]):
        the data invariant of the records (RECORD_REASON) as an upper bound of the popped value, against every token list the
        function subscripts - what lets `j = i + 1; while j < len(tokens) and ...: j += 1; j -= 1; tokens[j]` be decided by the facts."""
        sc = c.tf.scope(f)
        tok_lists = sorted({U(n.value) for n in own_nodes(f.node) if isinstance(n, ast.Subscript) and sc.type(n.value) == ("list", "Token")
                            and isinstance(n.value, (ast.Name, ast.Attribute))})

        def rec_list(g: Func, name: str, depth: int = 0) -> bool:
            """a local list of token indices taken from records - or a parameter for which every call site passes such a list"""
            if _record_list(g, name, only=("token",)):
                return True
            if depth < 2 and name in [a.arg for a in g.node.args.posonlyargs + g.node.args.args] and c.internal_helper(g) \
                    and not any(isinstance(n, ast.Call) and isinstance(n.func, ast.Attribute) and isinstance(n.func.value, ast.Name)
                                and n.func.value.id == name and n.func.attr in ("append", "extend", "insert") for n in own_nodes(g.node)) \
                    and not any(isinstance(n, ast.Name) and n.id == name and isinstance(n.ctx, ast.Store) for n in own_nodes(g.node)):
                sites = c.cg.callers.get(g, [])
                if sites and all(x.kind in ("direct", "method") for x in sites):
                    return all((a_ := c.eff.arg_for_param(x, g, name)) is not None and isinstance(a_, ast.Name)
                               and rec_list(x.caller, a_.id, depth + 1) for x in sites)
            return False

        def rb(call: ast.Call, z: Facts):
            if isinstance(call.func, ast.Attribute) and call.func.attr == "pop" and not call.args and isinstance(call.func.value, ast.Name) \
                    and rec_list(f, call.func.value.id):
                for t_ in tok_lists:
                    yield (f"len({t_})", -1)
        return rb if tok_lists else None

    def facts_of(f: Func, depth: int = 0):
        if f not in fcache:
            cfg_ = c.cfg(f)
            fcache[f] = (cfg_, analyse(cfg_, entry_of(f, depth), contract_call_kills(c, f), c.bool_summary, None, popped_bounds(f)))
        return fcache[f]

    # validate the contract where render rules are dispatched
    n_disp = 0
    for g, sites in c.cg.sites.items():
        for cs in sites:
            if not (cs.kind == "render-dispatch" or (rt is not None and rt in cs.callees and cs.kind == "method")):
                continue
            if len(cs.node.args) < 2:
                continue
            n_disp += 1
            cfg, res = facts_of(g)
            lst, idx = cs.node.args[0], cs.node.args[1]
            l = lin(idx)
            ok = False
            if l is not None and l[0] is not None:
                ok = True
                for n in cfg.owner(cs.node):
                    z = res.get(n.id)
                    if z is not None and not z.entails(T(l[0]), f"len({U(lst)})", -1 - l[1]):
                        ok = False
            r.add(f"{g.short}|render-dispatch|{alpha(g, cs.node)[:60]}", c.where(g, cs.node), g.short, U(cs.node)[:80],
                  "discharged" if ok else "violation",
                  "render-rule contract established: the index passed is below len(tokens) (enumerate / range)" if ok else
                  "a render rule is called with an index that is not known to be below the length of the token list it is given")
    if n_disp < 2:
        raise AnchorError(f"only {n_disp} render-rule dispatch sites found")
    for f in sorted(c.cg.api_phase(), key=lambda x: x.qual):
        sc = c.tf.scope(f)
        subs = [n for n in own_nodes(f.node) if isinstance(n, ast.Subscript) and not isinstance(n.slice, ast.Slice)
                and isinstance(n.ctx, ast.Load) and sc.type(n.value) in LISTS and lin(n.slice) is not None and lin(n.slice)[0] is not None]
        # a Sequence[Token] parameter indexed by an int parameter
        seqp = [a.arg for a in f.node.args.posonlyargs + f.node.args.args if a.annotation is not None and "Token" in U(a.annotation)
                and any(w in U(a.annotation) for w in ("Sequence", "list", "List"))]
        subs += [n for n in own_nodes(f.node) if isinstance(n, ast.Subscript) and not isinstance(n.slice, ast.Slice) and isinstance(n.ctx, ast.Load)
                 and isinstance(n.value, ast.Name) and n.value.id in seqp and n not in subs and lin(n.slice) is not None and lin(n.slice)[0] is not None]
        # subscripts through Sequence[Token] parameters of render rules
        if f in rr and len(f.node.args.args) >= 3:
            tp = f.node.args.args[1].arg
            subs += [n for n in own_nodes(f.node) if isinstance(n, ast.Subscript) and not isinstance(n.slice, ast.Slice) and isinstance(n.ctx, ast.Load)
                     and isinstance(n.value, ast.Name) and n.value.id == tp and n not in subs and lin(n.slice) is not None and lin(n.slice)[0] is not None]
        if not subs:
            continue
        r.functions += 1
        entry = entry_of(f)
        cfg, res = facts_of(f)
        bounds = Bounds(c, f)
        for s_ in sorted(subs, key=lambda x: (x.lineno, x.col_offset)):
            n_sites += 1
            key = f"{f.short}|{alpha(f, s_)}"
            where = c.where(f, s_)
            if _in_try_indexerror(f, s_):
                r.add(key, where, f.short, U(s_), "discharged", "inside a try whose handler catches IndexError")
                continue
            how = _by_facts(c, f, cfg, res, bounds, s_)
            if how:
                r.add(key, where, f.short, U(s_), "discharged", how + ((" [render-rule contract idx < len(tokens)]" if f in rr else
                                                                       " [contract derived from the call sites]") if entry is not None else ""))
                continue
            if _record_index(f, s_, bounds):
                r.add(key, where, f.short, U(s_), "exempt", RECORD_REASON)
                continue
            ek = (f.short, alpha(f, s_))
            if ek in TOK_EXEMPT and f.module.rel in ("rules_inline/strikethrough.py", "rules_inline/balance_pairs.py"):
                r.add(key, where, f.short, U(s_), "exempt", TOK_EXEMPT[ek])
                continue
            r.add(key, where, f.short, U(s_), "violation",
                  f"no bound established for index `{U(s_.slice)}` of the token / delimiter list `{U(s_.value)}` on some path: an input "
                  f"that drives the index to the end of the list raises IndexError out of parse / render")
    r.floor = 50
    return r
