"""MAP (C03): a block token's source map is [line the rule was entered on, cursor the rule returns with].

Value-numbering identity, per `.map` store (and per "map" entry of the reference table):
  * first element: the rule's start-line parameter (for list items: the loop's current start line), or a reviewed
    row-level deviation;
  * second element, leaf form ``[a, b]``: b value-equals ``state.line`` at the store, ``state.line`` has been written by
    then and is not written again before the rule returns True;
  * second element, placeholder form ``[a, 0]`` bound to an alias ``L``: every path from the creation to a ``return
    True`` (or back to the creation, for per-item placeholders) passes through a patch ``L[1] = w`` whose value equals
    ``state.line`` when the rule returns (function-level) / at the patch (per-iteration).
"""
from __future__ import annotations

import ast

from ..cfg import CFG, Node
from ..core import AnchorError, Func, U, own_nodes
from ..ctx import Ctx
from ..report import RuleResult, alpha
from ..dataflow import Problem, solve
from ..valnum import VN, add, analyse, entry

# (function, alpha-normalised map value) -> reason            (row-level maps; DESIGN 4/C03)
DEVIATIONS: dict[tuple[str, str], str] = {
    ("lheading", "[P1, state.line - 1]"): "the inline content of a setext heading excludes the underline, which is the last line of the block",
    ("table", "[P1, P1 + 1]"): "header row / header cells: exactly the first line of the table",
    ("table", "[L_expr_, L_expr_ + 1]"): "body row / body cells: exactly the current row line",
    ("block", "[0, 1]"): "inline mode: the whole source is one logical line",
}


def _ret_true_nodes(c: Ctx, f: Func, cfg: CFG) -> list[Node]:
    out = []
    fcfg, fres = c.facts(f)
    silent = f.node.args.args[3].arg if len(f.node.args.args) > 3 else None
    for n in cfg.nodes:
        if n.kind == "stmt" and isinstance(n.ast, ast.Return):
            v = n.ast.value
            if isinstance(v, ast.Constant) and v.value is False:
                continue
            z = fres.get(n.id)
            if silent and z is not None and z.holds(silent, True):
                continue
            out.append(n)
    return out


def _token_kinds(c: Ctx, f: Func, stmt: ast.AST) -> set[str]:
    """Kinds (first argument literals) of the push calls that define the receiver of `recv.map = ...` at stmt."""
    from ..reach import Reaching
    if not (isinstance(stmt, ast.Assign) and len(stmt.targets) == 1 and isinstance(stmt.targets[0], ast.Attribute)
            and isinstance(stmt.targets[0].value, ast.Name)):
        return set()
    out: set[str] = set()
    for d in Reaching(c.cfg(f)).at_ast(stmt, stmt.targets[0].value.id):
        v = d.value
        if d.kind == "assign" and isinstance(v, ast.Call) and v.args and isinstance(v.args[0], ast.Constant) and isinstance(v.args[0].value, str):
            out.add(v.args[0].value)
        else:
            return set()
    return out


def _start_like(c: Ctx, f: Func, name: str, at: ast.AST, start: str, kline: str, depth: int = 0) -> bool:
    """Every definition of `name` reaching `at` is the rule's start-line parameter, a copy of such a name, or the line cursor
    itself (`itemLine = state.line` after the nested tokenize of the previous item: the line the next item starts on)."""
    from ..interproc import reaching
    if depth > 3:
        return False
    ds = reaching(c, f).at_ast(at, name)
    if not ds:
        return False
    for d in ds:
        if d.kind == "param":
            if name != start:
                return False
        elif d.kind == "assign" and d.value is not None:
            v = d.value
            if isinstance(v, ast.Name):
                if not _start_like(c, f, v.id, d.stmt, start, kline, depth + 1):
                    return False
            elif U(v) != kline:
                return False
        else:
            return False
    return True


def rule_map(c: Ctx) -> RuleResult:
    r = RuleResult("MAP", "a block token's map is [the rule's start line, the cursor it returns with]; placeholder ends are patched "
                          "on every path")
    nstores = 0
    c = c.normalised("rules_block/")          # private helpers of the block rules inlined (sa/inline.py)
    for f in sorted(c.cg.parse_phase(), key=lambda x: x.qual):
        if not (f.module.rel.startswith("rules_block/") or f.module.rel == "rules_core/block.py"):
            continue
        stores: list[tuple[ast.AST, ast.AST, list[str], str]] = []      # (stmt, value, alias names, what)
        sc = c.tf.scope(f)
        for n in own_nodes(f.node):
            if isinstance(n, ast.Assign):
                if any(isinstance(t, ast.Attribute) and t.attr == "map" and sc.type(t.value) == "Token" for t in n.targets):
                    aliases = [t.id for t in n.targets if isinstance(t, ast.Name)]
                    stores.append((n, n.value, aliases, "token map"))
            elif isinstance(n, ast.Dict):
                for k, v in zip(n.keys, n.values):
                    if isinstance(k, ast.Constant) and k.value == "map":
                        stores.append((n, v, [], "reference map entry"))
        if not stores:
            continue
        r.functions += 1
        params = [a.arg for a in f.node.args.args]
        st = params[0] if params else "state"
        start = params[1] if len(params) > 1 else None
        is_rule = f in {reg.func for reg in c.reg.rules["block"]} or f.module.rel == "rules_core/block.py"
        helper_sites = []
        if not is_rule:
            # a private helper of a rule: its start line is the parameter for which every caller passes its own start line,
            # and `state.line` is judged at the call sites (written before the call, not written again before return True)
            from ..interproc import actuals
            st = next((a for a in params if c.tf.scope(f).env.get(a) == "StateBlock"), st)
            start = None
            for pn in params:
                acts = actuals(c, f, pn)
                if acts and all(isinstance(a, ast.Name) and len(caller.node.args.args) > 1 and a.id == caller.node.args.args[1].arg
                                for (caller, a, cs) in acts):
                    start = pn
                    helper_sites = acts
        kline = f"{st}.line"
        cfg, res, vn = analyse(c, f)
        r.paths += min(cfg.paths_count(), 10**6)
        rets = _ret_true_nodes(c, f, cfg)
        for (stmt, val, aliases, what) in stores:
            nstores += 1
            key = f"{f.short}|{alpha(f, val)}|{what}"
            where = c.where(f, stmt)
            # `list(m)` / `m[:]` / `m.copy()` of a local bound once to a two-element list literal is that literal (a copy of a map
            # that is itself checked where it is built)
            v0 = val
            if isinstance(v0, ast.Call) and isinstance(v0.func, ast.Name) and v0.func.id == "list" and len(v0.args) == 1:
                v0 = v0.args[0]
            elif isinstance(v0, ast.Call) and isinstance(v0.func, ast.Attribute) and v0.func.attr == "copy" and not v0.args:
                v0 = v0.func.value
            elif isinstance(v0, ast.Subscript) and isinstance(v0.slice, ast.Slice) and v0.slice.lower is None and v0.slice.upper is None:
                v0 = v0.value
            stmt_for_vn = stmt
            if isinstance(v0, ast.Name):
                ds = [n_ for n_ in own_nodes(f.node) if isinstance(n_, ast.Assign) and any(isinstance(t, ast.Name) and t.id == v0.id for t in n_.targets)]
                if len(ds) == 1 and isinstance(ds[0].value, ast.List) and len(ds[0].value.elts) == 2:
                    val, stmt_for_vn = ds[0].value, ds[0]
                    if isinstance(getattr(stmt, "value", None), ast.Name) and v0.id not in aliases:
                        aliases = aliases + [v0.id]          # `m = [a, 0]; token.map = m`: the list itself, patched through m
            if not (isinstance(val, ast.List) and len(val.elts) == 2):
                # a map copied from another token's map / a name bound to a checked list is fine; anything else is not decidable
                r.add(key, where, f.short, U(stmt)[:80], "violation", "map value is not a two-element list literal: identity not decidable")
                continue
            if stmt_for_vn is not stmt:
                stmt = stmt_for_vn            # judged where the list is built
            from ..interproc import expand
            dk = (f.short, alpha(f, val))
            dk2 = (f.short, alpha(f, ast.List(elts=[expand(c, f, e_, stmt) for e_ in val.elts], ctx=ast.Load())))
            if dk in DEVIATIONS or dk2 in DEVIATIONS:
                r.add(key, where, f.short, U(stmt)[:80], "exempt", "row-level map: " + DEVIATIONS[dk if dk in DEVIATIONS else dk2])
                continue
            a, b = val.elts
            owners = [n for n in cfg.owner(stmt) if res.get(n.id) is not None]
            if not owners:
                r.add(key, where, f.short, U(stmt)[:80], "discharged", "trivial: unreachable")
                continue
            # ---- first element
            first_ok = isinstance(a, ast.Name) and bool(start) and _start_like(c, f, a.id, stmt, start, kline)
            first_dev = ""
            if not first_ok:
                # accepted deviation: start + literal for a sub-part created inside the rule (table body)
                if isinstance(a, ast.BinOp) and isinstance(a.left, ast.Name) and a.left.id == start and isinstance(a.right, ast.Constant) \
                        and isinstance(a.op, ast.Add) and f.short == "table":
                    first_ok, first_dev = True, " (table body starts two lines below the header)"
                elif f.module.rel == "rules_block/table.py" and isinstance(a, ast.Name) and start:
                    # the body-row cursor: a line at least two below the header on every path to this store
                    fcfg, fres = c.facts(f)
                    zs = [fres.get(n_.id) for n_ in fcfg.owner(stmt)]
                    if zs and all(z is not None and z.entails(start, a.id, -2) for z in zs):
                        first_ok, first_dev = True, " (table body: the row cursor, at least two lines below the header)"
            if not first_ok:
                r.add(key + "|start", where, f.short, U(stmt)[:80], "violation",
                      f"the map does not start at the rule's start line `{start}` (first element is `{U(a)}`): the token would claim lines "
                      f"it was not parsed from")
                continue
            # ---- second element
            if isinstance(b, ast.Constant) and b.value == 0:
                if not aliases:
                    r.add(key + "|end", where, f.short, U(stmt)[:80], "violation", "placeholder map end 0 with no alias through which it could be patched")
                    continue
                L = aliases[0]
                msg = _placeholder(c, f, cfg, res, vn, stmt, L, kline, rets)
                if msg:
                    r.add(key + "|end", where, f.short, U(stmt)[:80], "violation", msg)
                else:
                    r.add(key + "|end", where, f.short, U(stmt)[:80], "discharged",
                          f"starts at `{start}`{first_dev}; placeholder end patched through `{L}[1]` with the cursor on every path to return True")
                continue
            # leaf form
            bad = ""
            dev_ok = False
            for n in owners:
                env = res[n.id]
                vb = vn.val(b, env, n.id)
                cur = VN.get(env, kline)
                if helper_sites and isinstance(b, ast.Name) and b.id in params and vb == entry(b.id):
                    # the map end is handed to the helper: at every call site the argument must be the caller's cursor, advanced
                    # before the call and not written again before return True
                    for (caller, a_, cs_) in helper_sites:
                        arg_b = c.eff.arg_for_param(cs_, f, b.id)
                        ccfg, cres, cvn = analyse(c, caller)
                        ckline = f"{caller.node.args.args[0].arg}.line"
                        crets = _ret_true_nodes(c, caller, ccfg)
                        for cn in ccfg.owner(cs_.node):
                            if cres.get(cn.id) is None or arg_b is None:
                                if arg_b is None:
                                    bad = f"{caller.short} passes no value for the map end `{b.id}` of {f.short}"
                                continue
                            ccur = VN.get(cres[cn.id], ckline)
                            if ccur == entry(ckline):
                                bad = f"{caller.short} calls {f.short} before advancing {ckline}: the recorded map end would be the start line"
                            elif cvn.val(arg_b, cres[cn.id], cn.id) != ccur:
                                bad = f"{caller.short} passes `{U(arg_b)}` as the map end of {f.short}, which is not the cursor {ckline} at the call"
                            for rn in crets:
                                if rn.id in ccfg.reachable_from([cn]) and cres.get(rn.id) is not None and VN.get(cres[rn.id], ckline) != ccur \
                                        and VN.get(cvn.edge(cn, cres[cn.id], "", ccfg.exit) or {}, ckline) != VN.get(cres[rn.id], ckline):
                                    bad = f"{ckline} is written again in {caller.short} between the call of {f.short} and `return True`"
                    if bad:
                        break
                    continue
                if cur == entry(kline) and helper_sites and vb == cur:
                    # judged in the callers: the cursor must have been advanced before the call and stay put until return True
                    for (caller, a_, cs_) in helper_sites:
                        ccfg, cres, cvn = analyse(c, caller)
                        ckline = f"{caller.node.args.args[0].arg}.line"
                        crets = _ret_true_nodes(c, caller, ccfg)
                        for cn in ccfg.owner(cs_.node):
                            if cres.get(cn.id) is None:
                                continue
                            ccur = VN.get(cres[cn.id], ckline)
                            if ccur == entry(ckline):
                                bad = f"{caller.short} calls {f.short} before advancing {ckline}: the recorded map end would be the start line"
                            for rn in crets:
                                if rn.id in ccfg.reachable_from([cn]) and cres.get(rn.id) is not None and VN.get(cres[rn.id], ckline) != ccur \
                                        and VN.get(cvn.edge(cn, cres[cn.id], "", ccfg.exit) or {}, ckline) != VN.get(cres[rn.id], ckline):
                                    bad = f"{ckline} is written again in {caller.short} between the call of {f.short} and `return True`"
                    if bad:
                        break
                    continue
                if cur == entry(kline):
                    # the map is written before the cursor: fine if every `return True` reachable from here leaves the cursor
                    # at exactly the value the map end has now
                    late_ok = vb != entry(kline)
                    reach_ = cfg.reachable_from([n])
                    seen_ret = False
                    for rn in rets:
                        if rn.id in reach_ and res.get(rn.id) is not None:
                            seen_ret = True
                            if VN.get(res[rn.id], kline) != vb:
                                late_ok = False
                    if late_ok and seen_ret:
                        continue
                    bad = (f"map end `{U(b)}` is taken while {kline} still holds its entry value and the cursor the rule returns with is "
                           f"not that value on every path: the map would be empty or stale")
                    break
                if vb != cur:
                    from ..valnum import add as _vadd
                    if f.short == "lheading" and _vadd(vb, 1) == cur and _token_kinds(c, f, stmt) == {"inline"}:
                        # the reviewed deviation, stated on values: the inline content of a setext heading ends one line before
                        # the cursor (the underline is the last line of the block)
                        dev_ok = True
                        continue
                    bad = f"map end `{U(b)}` (value {vb}) is not the cursor {kline} (value {cur}) at this point"
                    break
                for rn in rets:
                    if rn.id in cfg.reachable_from([n]) and res.get(rn.id) is not None:
                        if VN.get(res[rn.id], kline) != cur:
                            bad = (f"{kline} is written again between this map store and the `return True` at line {rn.lineno}: the map end "
                                   f"no longer equals the cursor the rule returns with")
                            break
                if bad:
                    break
            if bad:
                r.add(key + "|end", where, f.short, U(stmt)[:80], "violation", bad)
            elif dev_ok:
                r.add(key, where, f.short, U(stmt)[:80], "exempt", "row-level map: " + DEVIATIONS[("lheading", "[P1, state.line - 1]")])
            else:
                r.add(key + "|end", where, f.short, U(stmt)[:80], "discharged",
                      f"starts at `{start}`; end value-equals {kline}, which was advanced before and is not written again before return True")
    if nstores < 14:
        raise AnchorError(f"only {nstores} map stores found in the block rules (24 were confirmed by reading)")
    r.floor = 18
    return r


def _placeholder(c: Ctx, f: Func, cfg: CFG, res: dict, vn: VN, stmt: ast.AST, L: str, kline: str, rets: list[Node]) -> str:
    """'' if the placeholder created by `stmt` (alias L) is correctly patched, else the reason."""
    creators = [n for n in cfg.owner(stmt) if res.get(n.id) is not None]
    patches: list[Node] = []
    for n in cfg.nodes:
        if n.kind == "stmt" and isinstance(n.ast, ast.Assign) and res.get(n.id) is not None:
            for t in n.ast.targets:
                if isinstance(t, ast.Subscript) and isinstance(t.value, ast.Name) and t.value.id == L \
                        and isinstance(t.slice, ast.Constant) and t.slice.value == 1:
                    patches.append(n)
    if not patches:
        return f"placeholder `{L} = [.., 0]` is never patched (`{L}[1] = ...` not found): the map end stays 0"
    pid = {p.id for p in patches}
    in_loop = False
    from .token_rules import _flags_of, _once_only
    once = _once_only(f, _flags_of(f))
    for cr in creators:
        # must-pass-through: from the creation, without crossing a patch, neither a return-True nor the creation itself is reachable
        seen: set[int] = set()
        stack = [m for (m, l) in cr.succ if l != "exc"]
        while stack:
            n = stack.pop()
            if n.id in seen:
                continue
            seen.add(n.id)
            if n.id in pid:
                continue
            if n is cr:
                return (f"a new `{L}` placeholder can be created before the previous one was patched (path back to line {cr.lineno} "
                        f"without `{L}[1] = ...`)")
            if any(n is rn for rn in rets):
                return f"`return True` at line {n.lineno} is reachable from the placeholder without patching `{L}[1]`: the map end stays 0"
            if n.kind == "test" and once.get(id(n.ast)) == L:
                # once-only idiom: this branch is taken only while the alias is still falsy, i.e. not after its creation
                stack.extend(m for (m, l) in n.succ if l == "F")
                continue
            if n.kind == "test" and isinstance(n.ast, ast.Name) and n.ast.id == L:
                # after its creation the alias holds a non-empty list: `if L:` can only take its true edge
                stack.extend(m for (m, l) in n.succ if l == "T")
                continue
            if n.kind == "test" and isinstance(n.ast, ast.Compare) and len(n.ast.ops) == 1 and isinstance(n.ast.left, ast.Name) \
                    and n.ast.left.id == L and isinstance(n.ast.comparators[0], ast.Constant) and n.ast.comparators[0].value is None:
                # ... and is not None
                lab = "F" if isinstance(n.ast.ops[0], (ast.Is, ast.Eq)) else "T"
                stack.extend(m for (m, l) in n.succ if l == lab)
                continue
            stack.extend(m for (m, l) in n.succ if l != "exc")
        if cr.id in _reach_feasible(cfg, cr, L, once):
            in_loop = True
    # identity at the patch / at return
    for p in patches:
        env = res[p.id]
        w = p.ast.value                    # type: ignore[attr-defined]
        out = vn.edge(p, env, "", cfg.exit)
        vw = VN.get(out, f"{L}[1]")
        cur = VN.get(out, kline)
        if in_loop:
            if cur == entry(kline) or vw != cur:
                return (f"per-item placeholder patched with `{U(w)}` (value {vw}), which is not the cursor {kline} (value {cur}) at the patch "
                        f"(line {p.lineno})")
    if not in_loop:
        for p in patches:
            out = vn.edge(p, res[p.id], "", cfg.exit)
            vw = VN.get(out, f"{L}[1]")
            reach = cfg.reachable_from([p])
            for rn in rets:
                env = res.get(rn.id)
                if env is None or rn.id not in reach:
                    continue
                cur = VN.get(env, kline)
                if cur == entry(kline):
                    return f"{kline} still holds its entry value at the `return True` on line {rn.lineno}"
                if vw != cur:
                    return (f"the end patched at line {p.lineno} (`{U(p.ast.value)}`, value {vw}) is not the cursor {kline} (value {cur}) the "
                            f"rule returns with at line {rn.lineno}")
    return ""


def _reach_feasible(cfg: CFG, cr: Node, L: str, once: dict[int, str]) -> set[int]:
    seen: set[int] = set()
    stack = [m for (m, l) in cr.succ if l != "exc"]
    while stack:
        n = stack.pop()
        if n.id in seen:
            continue
        seen.add(n.id)
        if n.kind == "test" and once.get(id(n.ast)) == L:
            stack.extend(m for (m, l) in n.succ if l == "F")
            continue
        if n.kind == "test" and isinstance(n.ast, ast.Compare) and len(n.ast.ops) == 1 and isinstance(n.ast.left, ast.Name) \
                and n.ast.left.id == L and isinstance(n.ast.comparators[0], ast.Constant) and n.ast.comparators[0].value is None:
            lab = "F" if isinstance(n.ast.ops[0], (ast.Is, ast.Eq)) else "T"
            stack.extend(m for (m, l) in n.succ if l == lab)
            continue
        stack.extend(m for (m, l) in n.succ if l != "exc")
    return seen


# ------------------------------------------------------------------------------------------------ NONBLANK
class _Checked(Problem):
    """Must-analysis: the set of line-cursor names c for which `isEmpty(c)` has been found false since c was last written."""

    def entry_state(self):
        return frozenset()

    def join(self, a, b, at):
        return a & b

    @staticmethod
    def _is_empty_call(e: ast.AST) -> str | None:
        if isinstance(e, ast.Call) and isinstance(e.func, ast.Attribute) and e.func.attr == "isEmpty" and len(e.args) == 1 and not e.keywords \
                and isinstance(e.args[0], ast.Name):
            return e.args[0].id
        return None

    def edge(self, n: Node, state, label: str, succ: Node):
        a = n.ast
        if a is None:
            return state
        if n.kind == "test" and label in ("T", "F"):
            e, pos = a, label == "T"
            while isinstance(e, ast.UnaryOp) and isinstance(e.op, ast.Not):
                e, pos = e.operand, not pos
            nm = self._is_empty_call(e)
            if nm is not None and not pos:
                return state | {nm}
            return state
        if n.kind in ("stmt", "for") and label != "exc":
            killed = set()
            for t in ([x for tg in a.targets for x in ast.walk(tg)] if isinstance(a, ast.Assign) else
                      [x for x in ast.walk(a.target)] if isinstance(a, (ast.AugAssign, ast.AnnAssign, ast.For)) else []):
                if isinstance(t, ast.Name) and isinstance(t.ctx, ast.Store):
                    killed.add(t.id)
            for x in ast.walk(a):
                if isinstance(x, ast.NamedExpr) and isinstance(x.target, ast.Name):
                    killed.add(x.target.id)
            if killed:
                return frozenset(state - killed)
        return state


class _EndState(Problem):
    """Must-analysis for scans that step over blank lines on purpose (indented code): facts 'chk:c' (isEmpty(c) failed since c was
    written), 'prev:c' (c was stepped by one from a checked position: line c - 1 is non-blank), 'end:v' (v holds a line number
    whose predecessor is non-blank: the start line + 1, or a copy of a cursor in state 'prev')."""

    def __init__(self, start: str) -> None:
        self.start = start

    def entry_state(self):
        return frozenset()

    def join(self, a, b, at):
        return a & b

    def edge(self, n: Node, state, label: str, succ: Node):
        from ..syn import incr_of, const_int
        a = n.ast
        if a is None:
            return state
        if n.kind == "test" and label in ("T", "F"):
            e, pos = a, label == "T"
            while isinstance(e, ast.UnaryOp) and isinstance(e.op, ast.Not):
                e, pos = e.operand, not pos
            nm = _Checked._is_empty_call(e)
            if nm is not None and not pos:
                return state | {"chk:" + nm}
            return state
        if n.kind == "stmt" and label != "exc" and isinstance(a, (ast.Assign, ast.AugAssign, ast.AnnAssign)):
            st = set(state)
            io = incr_of(a) if isinstance(a, (ast.Assign, ast.AugAssign)) else None
            if io is not None and io[2] and const_int(io[1]) == 1:
                v = io[0]
                was = "chk:" + v in st
                st = {x for x in st if x.split(":", 1)[1] != v}
                if was:
                    st |= {"prev:" + v, "end:" + v}
                return frozenset(st)
            tg = a.targets if isinstance(a, ast.Assign) else [a.target]
            names = [t.id for t in tg if isinstance(t, ast.Name)]
            val = getattr(a, "value", None)
            good = False
            if isinstance(val, ast.Name) and ("end:" + val.id in st):
                good = True
            if isinstance(val, ast.BinOp) and isinstance(val.op, ast.Add) and isinstance(val.left, ast.Name) and val.left.id == self.start \
                    and isinstance(val.right, ast.Constant) and val.right.value == 1:
                good = True          # the line after the start line, which is non-blank by the dispatcher's contract
            killed = {x.id for t in tg for x in ast.walk(t) if isinstance(x, ast.Name) and isinstance(x.ctx, ast.Store)}
            st = {x for x in st if x.split(":", 1)[1] not in killed}
            if good:
                st |= {"end:" + nm for nm in names}
            return frozenset(st)
        if n.kind == "for" and label == "iter":
            killed = {x.id for x in ast.walk(a.target) if isinstance(x, ast.Name)}
            return frozenset(x for x in state if x.split(":", 1)[1] not in killed)
        return state


def rule_nonblank(c: Ctx) -> RuleResult:
    r = RuleResult("NONBLANK", "a block rule that cuts the text of an inline container (or of a reference definition) out of a run of lines "
                               "steps over a line only after `isEmpty` of that very line has failed: the run - hence the token's map and "
                               "content - contains no blank line and ends on a non-blank one")
    c = c.normalised("rules_block/")
    from ..syn import incr_of, const_int
    nfun = 0
    work: list[tuple[Func, str]] = []
    for reg in c.reg.rules["block"]:
        f = reg.func
        # cursors: names used as the end of a getLines(start, cursor, ...) whose result is stripped
        found = False
        for x in own_nodes(f.node):
            if isinstance(x, ast.Call) and isinstance(x.func, ast.Attribute) and x.func.attr == "strip" and not x.args \
                    and isinstance(x.func.value, ast.Call) and isinstance(x.func.value.func, ast.Attribute) and x.func.value.func.attr == "getLines" \
                    and len(x.func.value.args) >= 2 and isinstance(x.func.value.args[1], ast.Name):
                work.append((f, x.func.value.args[1].id))
                found = True
        nfun += found
    seen: set[tuple[Func, str]] = set()
    nloops = 0
    while work:
        f, cur = work.pop()
        if (f, cur) in seen:
            continue
        seen.add((f, cur))
        # the cursor may be what a scanning helper returns (`nextLine = findParagraphEnd(state, nextLine, ...)`): the helper's
        # returned name is a cursor of the helper
        for a in own_nodes(f.node):
            if not (isinstance(a, ast.Assign) and isinstance(a.value, ast.Call)):
                continue
            idx = None
            for t in a.targets:
                if isinstance(t, ast.Name) and t.id == cur:
                    idx = -1
                elif isinstance(t, (ast.Tuple, ast.List)):
                    for k, e in enumerate(t.elts):
                        if isinstance(e, ast.Name) and e.id == cur:
                            idx = k
            if idx is None:
                continue
            cs = c.cg.site_of.get(a.value)
            for g in (cs.callees if cs is not None and cs.kind in ("direct", "method") else []):
                if not g.module.rel.startswith("rules_block/"):
                    continue
                for rt in own_nodes(g.node):
                    if isinstance(rt, ast.Return) and rt.value is not None:
                        v = rt.value
                        if idx >= 0 and isinstance(v, (ast.Tuple, ast.List)) and idx < len(v.elts):
                            v = v.elts[idx]
                        if isinstance(v, ast.Name):
                            work.append((g, v.id))
        loops = [w for w in own_nodes(f.node) if isinstance(w, ast.While)
                 and any((io := incr_of(s)) is not None and io[0] == cur for s in ast.walk(w) if isinstance(s, (ast.Assign, ast.AugAssign)))]
        if not loops:
            continue
        nloops += 1
        r.functions += 1
        cfg = c.cfg(f)
        res = solve(cfg, _Checked(), widen_after=10**9)
        for w in loops:
            for s in [s for s in ast.walk(w) if isinstance(s, (ast.Assign, ast.AugAssign))]:
                io = incr_of(s)
                if io is None or io[0] != cur:
                    continue
                ok = True
                for nd in cfg.owner(s):
                    st = res.get(nd.id)
                    if st is not None and cur not in st:
                        ok = False
                r.add(f"{f.short}|step {cur}|{alpha(f, s)}|{sum(1 for k in r.obligations if k.key.startswith(f.short + '|step'))}", c.where(f, s), f.short, U(s),
                      "discharged" if ok else "violation",
                      f"`{cur}` is stepped only after isEmpty({cur}) failed on every path" if ok else
                      f"the scan can step over line `{cur}` without having tested isEmpty({cur}) on some path: a blank line is taken into the "
                      f"block (the token's map ends on - or spans - a blank line and no longer matches its stripped content)")
    if nloops < 1:
        raise AnchorError("no scan loop found behind the stripped getLines cuts of the block rules")
    # ---- a scan that steps over blank lines on purpose (indented code keeps interior blank lines) must return with a cursor whose
    # predecessor line is non-blank: the value stored to state.line is the start line + 1 or a copy of the scan cursor taken
    # right after it stepped over a line for which isEmpty had failed
    nskip = 0
    for reg in c.reg.rules["block"]:
        f = reg.func
        params = [a.arg for a in f.node.args.args]
        if len(params) < 2:
            continue
        st, start = params[0], params[1]
        skipping = False
        for w in [w for w in own_nodes(f.node) if isinstance(w, ast.While)]:
            for i_ in [x for x in ast.walk(w) if isinstance(x, ast.If)]:
                nm = _Checked._is_empty_call(i_.test)
                if nm is not None and any((io := incr_of(s_)) is not None and io[0] == nm and io[2] for b_ in i_.body for s_ in ast.walk(b_)
                                          if isinstance(s_, (ast.Assign, ast.AugAssign))):
                    skipping = True
        if not skipping:
            continue
        nskip += 1
        cfg = c.cfg(f)
        res = solve(cfg, _EndState(start), widen_after=10**9)
        for n in cfg.nodes:
            a = n.ast
            if n.kind == "stmt" and isinstance(a, ast.Assign) and any(U(t) == f"{st}.line" for t in a.targets) and res.get(n.id) is not None:
                v = a.value
                ok = (isinstance(v, ast.Name) and "end:" + v.id in res[n.id]) or (
                    isinstance(v, ast.BinOp) and isinstance(v.op, ast.Add) and isinstance(v.left, ast.Name) and v.left.id == start
                    and isinstance(v.right, ast.Constant) and v.right.value == 1)
                r.add(f"{f.short}|end|{alpha(f, a)}", c.where(f, a), f.short, U(a), "discharged" if ok else "violation",
                      "the cursor returned lies right after a line for which isEmpty failed (or after the start line)" if ok else
                      f"the scan steps over blank lines, and the cursor it returns with (`{U(v)}`) is not known to lie right after a non-blank "
                      f"line on every path: the block - and its map - would end on blank lines")
    if nfun < 2:
        raise AnchorError(f"only {nfun} block rules cut stripped text out of a scanned run of lines (paragraph, lheading, reference were confirmed by reading)")
    r.floor = 3
    return r
