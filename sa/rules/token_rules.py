"""C02 rule families: LVL (level bookkeeping of the token constructors), PAIR (level neutrality of every rule; open/close
literal agreement), PUSH (who may add tokens / write the level), SILENT (validation mode is pure), KIDS (children only on
inline / image carriers), LIFE (the placeholder kind text_special is eliminated in every list it can be pushed into)."""
from __future__ import annotations

import ast
from typing import Any

from ..cfg import CFG, Node
from ..core import AnchorError, Func, U, own_nodes
from ..ctx import Ctx
from ..reach import Reaching
from ..report import RuleResult, alpha
from ..tokens import TokSite, _blocks, literal_ints, literal_strs, token_sites
from ..typestate import propagate
from ..valnum import VN, add, analyse, entry

STATE_TYPES = ("StateBlock", "StateInline")


# ------------------------------------------------------------------------------------------------ helpers
def _push_funcs(c: Ctx) -> tuple[Func, Func, Func]:
    return (c.p.func("rules_block/state_block.py:StateBlock.push"),
            c.p.func("rules_inline/state_inline.py:StateInline.push"),
            c.p.func("rules_inline/state_inline.py:StateInline.pushPending"))


def _eval_with(e: ast.AST, subst: dict[str, int]) -> bool | None:
    """Evaluate a comparison whose only non-constant operands are in `subst` (by unparsed text)."""
    if isinstance(e, ast.Compare) and len(e.ops) == 1:
        def v(x: ast.AST) -> int | None:
            if U(x) in subst:
                return subst[U(x)]
            li = literal_ints(x)
            return li[0] if li and len(li) == 1 else None
        a, b = v(e.left), v(e.comparators[0])
        if a is None or b is None:
            return None
        op = e.ops[0]
        return {ast.Lt: a < b, ast.LtE: a <= b, ast.Gt: a > b, ast.GtE: a >= b, ast.Eq: a == b, ast.NotEq: a != b}.get(type(op))
    return None


def _specialise(subst: dict[str, int]):
    def flt(n: Node, label: str, env: dict) -> bool:
        v = _eval_with(n.ast, subst)
        if v is None:
            return True
        return v == (label == "T")
    return flt


# ------------------------------------------------------------------------------------------------ LVL
def rule_lvl(c: Ctx) -> RuleResult:
    r = RuleResult("LVL", "level bookkeeping of the token constructors: push(..., n) stores level L-1, L, L for n = -1, 0, 1 and "
                          "leaves the state at L-1, L, L+1; pending text takes the level push left behind; block tokens are flagged "
                          "block; every other writer of .level recomputes with the same shape")
    push_b, push_i, pend = _push_funcs(c)
    want_tok = {-1: -1, 0: 0, 1: 0}
    want_exit = {-1: -1, 0: 0, 1: 1}
    for f, is_block in ((push_b, True), (push_i, False)):
        r.functions += 1
        params = [a.arg for a in f.node.args.args]
        selfn, nest = params[0], params[3]
        lk = f"{selfn}.level"
        for k in (-1, 0, 1):
            cfg, res, vn = analyse(c, f, None, _specialise({nest: k}))
            rets = [n for n in cfg.nodes if n.kind == "stmt" and isinstance(n.ast, ast.Return) and res.get(n.id) is not None]
            if not rets:
                raise AnchorError(f"{f.short}: no reachable return when specialised on nesting={k}")
            for n in rets:
                env = res[n.id]
                tokname = U(n.ast.value) if n.ast.value is not None else "?"
                vlev = VN.get(env, lk)
                vtok = VN.get(env, f"{tokname}.level")
                ok1 = vlev == add(entry(lk), want_exit[k])
                ok2 = vtok == add(entry(lk), want_tok[k])
                r.add(f"{f.short}|nesting={k}|exit-level", c.where(f, n.ast), f.short, f"push(.., nesting={k}): {lk} at return",
                      "discharged" if ok1 else "violation",
                      f"state level on return is L{want_exit[k]:+d}" if ok1 else
                      f"state level on return is {vlev}, expected entry level {want_exit[k]:+d}: every later token is mis-levelled")
                r.add(f"{f.short}|nesting={k}|token-level", c.where(f, n.ast), f.short, f"push(.., nesting={k}): {tokname}.level",
                      "discharged" if ok2 else "violation",
                      f"token level is L{want_tok[k]:+d}" if ok2 else
                      f"token level is {vtok}, expected entry level {want_tok[k]:+d} (a token's level must equal its depth)")
                if is_block:
                    vb = VN.get(env, f"{tokname}.block")
                    okb = vb == ("const", "True")
                    r.add(f"{f.short}|nesting={k}|block-flag", c.where(f, n.ast), f.short, f"{tokname}.block", "discharged" if okb else "violation",
                          "block-level tokens are flagged block=True on every path" if okb else
                          f"{tokname}.block is {vb} at return: block tokens must be flagged block")
                else:
                    vb = VN.get(env, f"{tokname}.block")
                    okb = vb == entry(f"{tokname}.block") or vb[0] == "def" and "Token" in str(vb)
                    vp = VN.get(env, f"{selfn}.pendingLevel")
                    okp = vp == vlev
                    r.add(f"{f.short}|nesting={k}|pendingLevel", c.where(f, n.ast), f.short, f"{selfn}.pendingLevel",
                          "discharged" if okp else "violation",
                          "pendingLevel is the level push leaves behind (text flushed later gets the right depth)" if okp else
                          f"pendingLevel is {vp} but the state level is {vlev}: flushed text would carry the wrong level")
        # no .block = True in the inline constructors
    for f in (push_i, pend):
        for n in own_nodes(f.node):
            if isinstance(n, ast.Assign) and any(isinstance(t, ast.Attribute) and t.attr == "block" for t in n.targets):
                r.add(f"{f.short}|block-flag", c.where(f, n), f.short, U(n), "violation", "inline tokens must not be flagged block")
    # pushPending: token.level = self.pendingLevel
    r.functions += 1
    cfg, res, vn = analyse(c, pend)
    selfn = pend.node.args.args[0].arg
    for n in cfg.nodes:
        if n.kind == "stmt" and isinstance(n.ast, ast.Return) and res.get(n.id) is not None and n.ast.value is not None:
            tok = U(n.ast.value)
            v = VN.get(res[n.id], f"{tok}.level")
            ok = v == entry(f"{selfn}.pendingLevel")
            r.add(f"{pend.short}|token-level", c.where(pend, n.ast), pend.short, f"{tok}.level", "discharged" if ok else "violation",
                  "pending text takes pendingLevel" if ok else f"pending text token level is {v}, expected {selfn}.pendingLevel")
    # every other writer of `.level` on a Token
    others: list[tuple[Func, ast.AST]] = []
    for f in sorted(c.cg.parse_phase(), key=lambda x: x.qual):
        if f in (push_b, push_i, pend):
            continue
        sc = c.tf.scope(f)
        for n in own_nodes(f.node):
            tg = []
            if isinstance(n, ast.Assign):
                tg = n.targets
            elif isinstance(n, (ast.AugAssign, ast.AnnAssign)):
                tg = [n.target]
            for t in tg:
                if isinstance(t, ast.Attribute) and t.attr == "level" and sc.type(t.value) == "Token":
                    others.append((f, n))
    by_func: dict[Func, list[ast.AST]] = {}
    for f, n in others:
        by_func.setdefault(f, []).append(n)
    for f, stores in sorted(by_func.items(), key=lambda kv: kv[0].qual):
        r.functions += 1
        rec = [st_ for st_ in stores if _is_recompute_store(f, st_)]
        con = [st_ for st_ in stores if st_ not in rec]
        if rec:
            _lvl_recompute_loop(c, r, f, rec)
        if con:
            _lvl_constructed(c, r, f, con)
    r.floor = 20
    return r


def _enclosing_loop(f: Func, s: ast.AST):
    p = f.module.parents.get(s)
    while p is not None and p is not f.node:
        if isinstance(p, (ast.While, ast.For)):
            return p
        p = f.module.parents.get(p)
    return None


def _is_recompute_store(f: Func, s: ast.AST) -> bool:
    """`X.level = counter` inside a loop that also tests `X.nesting`: a recomputation of levels from the nesting fields."""
    if not (isinstance(s, ast.Assign) and len(s.targets) == 1 and isinstance(s.targets[0], ast.Attribute)):
        return False
    loop = _enclosing_loop(f, s)
    if loop is None:
        return False
    recv = U(s.targets[0].value)
    return any(isinstance(x, ast.Attribute) and x.attr == "nesting" and U(x.value) == recv for x in ast.walk(loop))


def _lvl_recompute_loop(c: Ctx, r: RuleResult, f: Func, stores: list[ast.AST]) -> None:
    """A loop that recomputes levels from .nesting: same shape as push, specialised on the nesting of the current token."""
    want_tok = {-1: -1, 0: 0, 1: 0}
    want_next = {-1: -1, 0: 0, 1: 1}
    for s in stores:
        if not isinstance(s, ast.Assign):
            r.add(f"{f.short}|level-store", c.where(f, s), f.short, U(s), "violation", "level written by an augmented assignment")
            continue
        recv = U(s.targets[0].value)            # type: ignore[attr-defined]
        nest_txt = f"{recv}.nesting"
        loop = None
        p = f.module.parents.get(s)
        while p is not None and p is not f.node:
            if isinstance(p, (ast.While, ast.For)):
                loop = p
                break
            p = f.module.parents.get(p)
        if loop is None or not isinstance(s.value, ast.Name):
            r.add(f"{f.short}|level-store", c.where(f, s), f.short, U(s), "violation",
                  "level recomputation not in the recognised form (a counter stored inside the token loop)")
            continue
        var = s.value.id
        # the loop must run on every path through the function: an early return may only test the iterated list itself
        if isinstance(s.targets[0].value, ast.Subscript):                      # type: ignore[attr-defined]
            iterated = U(s.targets[0].value.value)                             # type: ignore[attr-defined]
        elif isinstance(loop, ast.For):
            iterated = U(loop.iter)
        else:
            iterated = U(s.targets[0].value)                                   # type: ignore[attr-defined]
        for rt in own_nodes(f.node):
            if isinstance(rt, ast.Return) and rt.lineno < loop.lineno and not any(x is rt for x in ast.walk(loop)):
                guard = f.module.parents.get(rt)
                ok_guard = False
                if isinstance(guard, ast.If):
                    names = {U(x) for x in ast.walk(guard.test) if isinstance(x, (ast.Attribute,)) and not isinstance(f.module.parents.get(x), ast.Attribute)}
                    plain = {x.id for x in ast.walk(guard.test) if isinstance(x, ast.Name)}
                    lens = {n_.targets[0].id for n_ in own_nodes(f.node) if isinstance(n_, ast.Assign) and isinstance(n_.targets[0], ast.Name)
                            and isinstance(n_.value, ast.Call) and U(n_.value.func) == "len" and n_.value.args and U(n_.value.args[0]) == iterated}
                    ok_guard = names <= {iterated} and plain <= ({iterated.split(".")[0], "len"} | lens)
                r.add(f"{f.short}|early-exit|{alpha(f, guard if isinstance(guard, ast.If) else rt)[:50]}", c.where(f, rt), f.short,
                      U(guard.test)[:60] if isinstance(guard, ast.If) else "return", "discharged" if ok_guard else "violation",
                      "early exit only when the token list itself is empty" if ok_guard else
                      f"the level recomputation can be skipped by an early return that does not test `{iterated}` itself: tokens retyped "
                      f"by the delimiter post-processing keep stale levels")
        # the store must lie on every path through the loop body (not nested in a conditional)
        if f.module.parents.get(s) is not loop:
            r.add(f"{f.short}|level-store|every-token", c.where(f, s), f.short, U(s), "violation",
                  "the level store is conditional: some tokens keep a stale level")
            continue
        for k in (-1, 0, 1):
            cfg, res, vn = analyse(c, f, None, _specialise({nest_txt: k}))
            heads = [n for n in cfg.nodes if n.kind in ("join", "for") and n.ast is loop]
            if not heads or res.get(heads[0].id) is None:
                raise AnchorError(f"{f.short}: loop head not found")
            head = heads[0]
            base = VN.get(res[head.id], var)
            for n in cfg.owner(s):
                if res.get(n.id) is None:
                    continue
                v = vn.val(s.value, res[n.id], n.id)
                ok = v == add(base, want_tok[k])
                r.add(f"{f.short}|nesting={k}|token-level", c.where(f, s), f.short, f"nesting={k}: {U(s)}",
                      "discharged" if ok else "violation",
                      f"recomputed token level is counter{want_tok[k]:+d}" if ok else
                      f"recomputed level is {v}, expected loop-entry counter {want_tok[k]:+d}")
            inside = {id(x) for b in loop.body for x in ast.walk(b)}
            for (p_, label) in head.pred:
                if p_.ast is None or id(p_.ast) not in inside or res.get(p_.id) is None:
                    continue
                out = vn.edge(p_, res[p_.id], label, head)
                if out is None:
                    continue
                v = VN.get(out, var)
                ok = v == add(base, want_next[k])
                r.add(f"{f.short}|nesting={k}|counter", c.where(f, p_.ast), f.short, f"nesting={k}: counter at the back edge",
                      "discharged" if ok else "violation",
                      f"counter after the token is counter{want_next[k]:+d}" if ok else
                      f"counter after a nesting={k} token is {v}, expected {want_next[k]:+d}")


def _blk_inc(st: ast.AST):
    from ..syn import incr_of
    return incr_of(st) if isinstance(st, (ast.Assign, ast.AugAssign)) else None


def _lvl_constructed(c: Ctx, r: RuleResult, f: Func, stores: list[ast.AST]) -> None:
    """Tokens built by hand (`Token(kind, tag, n)` then `.level = <counter>`): walk each statement block with the counter's
    offset; a token with nesting n must get offset(before) + (n < 0 ? -1 : 0) and leave the counter at offset(before) + n."""
    done: set[int] = set()
    for blk in _blocks(f.node):
        if not any(any(s is x for x in ast.walk(st)) for st in blk for s in stores):
            continue
        direct = [st for st in blk if st in stores]
        if not direct:
            continue
        # the counter variable
        vars_ = {U(st.value) for st in direct if isinstance(st, ast.Assign)}
        if len(vars_) != 1 or not isinstance(direct[0], ast.Assign) or not isinstance(direct[0].value, ast.Name):
            for st in direct:
                r.add(f"{f.short}|level-store", c.where(f, st), f.short, U(st), "violation", "level store not from a single counter variable")
            continue
        var = vars_.pop()
        off = 0
        cur_nest: int | None = None
        cur_tok: str | None = None
        tok_start_off = 0
        for st in blk:
            if isinstance(st, ast.Assign) and isinstance(st.value, ast.Call) and len(st.targets) == 1 and isinstance(st.targets[0], ast.Name):
                cs = c.cg.site_of.get(st.value)
                if cs is not None and cs.kind == "ctor" and cs.detail == "Token":
                    # close the previous token group
                    if cur_tok is not None and cur_nest is not None and off != tok_start_off + cur_nest:
                        r.add(f"{f.short}|counter|{cur_tok}", c.where(f, st), f.short, f"counter after the nesting={cur_nest} token",
                              "violation", f"counter moved by {off - tok_start_off}, expected {cur_nest:+d}")
                    ni = literal_ints(st.value.args[2] if len(st.value.args) > 2 else None)
                    cur_nest = ni[0] if ni and len(ni) == 1 else None
                    cur_tok = st.targets[0].id
                    tok_start_off = off
                    continue
            from ..syn import const_int as _ci, incr_of as _inc
            inc_ = _inc(st) if isinstance(st, (ast.Assign, ast.AugAssign)) else None
            if inc_ is not None and inc_[0] == var and _ci(inc_[1]) is not None:
                off += _ci(inc_[1]) if inc_[2] else -_ci(inc_[1])
                continue
            if st in direct:
                done.add(id(st))
                if cur_nest is None:
                    r.add(f"{f.short}|level-store", c.where(f, st), f.short, U(st), "violation", "level store on a token whose nesting is not a literal")
                    continue
                want = tok_start_off + (-1 if cur_nest < 0 else 0)
                ok = off == want and U(st.targets[0].value) == cur_tok          # type: ignore[attr-defined]
                kind = U(blk[blk.index(st) - 1])[:40] if blk.index(st) else ""
                r.add(f"{f.short}|constructed|nesting={cur_nest}|{len([x for x in done])}", c.where(f, st), f.short, U(st),
                      "discharged" if ok else "violation",
                      f"hand-built nesting={cur_nest} token gets counter{want - tok_start_off:+d} relative to the counter before it" if ok else
                      f"hand-built nesting={cur_nest} token gets counter offset {off - tok_start_off:+d}, expected {want - tok_start_off:+d}")
                continue
            if any(isinstance(x, (ast.Assign, ast.AugAssign)) and any(U(t) == var for t in (x.targets if isinstance(x, ast.Assign) else [x.target]))
                   for x in ast.walk(st)):
                # the counter is written in a nested block: require that block to be neutral by the same walk (recursion through
                # _blocks covers it); here: unknown offset
                sub_inc = [i_ for i_ in (_inc(x) for x in ast.walk(st) if isinstance(x, (ast.Assign, ast.AugAssign))) if i_ is not None and i_[0] == var]
                net = sum((_ci(i_[1]) or 0) * (1 if i_[2] else -1) for i_ in sub_inc)
                if any(isinstance(x, ast.Assign) and any(U(t) == var for t in x.targets) and _inc(x) is None for x in ast.walk(st)):
                    off = 0
                    tok_start_off = 0
                    cur_tok = None
                elif net != 0:
                    r.add(f"{f.short}|counter|nested", c.where(f, st), f.short, U(st)[:60], "violation",
                          f"a nested block moves the level counter by {net}")
        if cur_tok is not None and cur_nest is not None and off != tok_start_off + cur_nest:
            r.add(f"{f.short}|counter|{cur_tok}|end", c.where(f, blk[-1]), f.short, f"counter after the last nesting={cur_nest} token", "violation",
                  f"counter moved by {off - tok_start_off}, expected {cur_nest:+d}")
        elif off != 0 and any((i_ := _blk_inc(st)) is not None and i_[0] == var for st in blk):
            r.add(f"{f.short}|counter|block-neutral", c.where(f, blk[-1]), f.short, "counter at the end of the block", "violation",
                  f"the block leaves the level counter at {off:+d}: the tokens it adds are not balanced")
        elif any((i_ := _blk_inc(st)) is not None and i_[0] == var for st in blk):
            r.add(f"{f.short}|counter|block-neutral", c.where(f, blk[-1]), f.short, "counter at the end of the block", "discharged",
                  "the hand-built open/close pair leaves the counter where it was")
    for st in stores:
        if id(st) not in done:
            r.add(f"{f.short}|level-store|{alpha(f, st)}", c.where(f, st), f.short, U(st), "violation",
                  "store to a token's level outside the recognised constructors (push, pushPending, fragments_join, hand-built link tokens)")


# ------------------------------------------------------------------------------------------------ PAIR (i): level neutrality
def _flags_of(f: Func) -> set[str]:
    asg: dict[str, list[ast.AST]] = {}
    for n in own_nodes(f.node):
        if isinstance(n, ast.Assign):
            for t in n.targets:
                for x in ast.walk(t):
                    if isinstance(x, ast.Name) and isinstance(x.ctx, ast.Store):
                        asg.setdefault(x.id, []).append(n.value if isinstance(t, ast.Name) or _chain_target(n, x) else None)
        elif isinstance(n, ast.AnnAssign) and isinstance(n.target, ast.Name) and n.value is not None:
            asg.setdefault(n.target.id, []).append(n.value)
    tested = set()
    for n in own_nodes(f.node):
        if isinstance(n, (ast.If, ast.While)):
            for x in ast.walk(n.test):
                if isinstance(x, ast.Name):
                    tested.add(x.id)
    out = set()
    for k, vs in asg.items():
        if k in tested and all(v is not None and _lit_truth(v) is not None for v in vs) and any(_lit_truth(v) is False for v in vs) \
                and any(_lit_truth(v) is True for v in vs):
            out.add(k)
    return out


def _chain_target(n: ast.Assign, x: ast.Name) -> bool:
    """x is a plain name target of a chained assignment  a.b = x = [..]"""
    return any(t is x for t in n.targets)


def _lit_truth(v: ast.AST) -> bool | None:
    if isinstance(v, ast.Constant):
        return bool(v.value)
    if isinstance(v, (ast.List, ast.Tuple, ast.Set)):
        return len(v.elts) > 0
    if isinstance(v, ast.Dict):
        return len(v.keys) > 0
    return None


def _once_only(f: Func, flags: set[str]) -> dict[int, str]:
    """id(test expr `v == E`) -> flag, where `v = E` immediately precedes the loop, v only grows by positive literals inside
    it, E's names are loop invariant, and the test's body makes the flag truthy: the branch is taken at most once, namely
    while the flag is still falsy."""
    res: dict[int, str] = {}
    for blk in _blocks(f.node):
        for i, s in enumerate(blk):
            if not (isinstance(s, ast.While) and i > 0):
                continue
            prev = None
            for j in range(i - 1, -1, -1):
                pj = blk[j]
                if isinstance(pj, ast.Assign) and len(pj.targets) == 1 and isinstance(pj.targets[0], ast.Name):
                    prev = pj
                    # nothing between prev and the loop may write v or E's names
                    v0 = pj.targets[0].id
                    names = {x.id for x in ast.walk(pj.value) if isinstance(x, ast.Name)} | {v0}
                    between_ok = True
                    for mid in blk[j + 1:i]:
                        for x in ast.walk(mid):
                            if isinstance(x, ast.Name) and isinstance(x.ctx, ast.Store) and x.id in names:
                                between_ok = False
                    if not between_ok:
                        prev = None
                        continue
                    ok = _once_candidate(s, pj, flags, res)
                    if ok:
                        break
    return res


def _once_candidate(loop: ast.While, prev: ast.Assign, flags: set[str], res: dict[int, str]) -> bool:
    v, E = prev.targets[0].id, prev.value          # type: ignore[attr-defined]
    enames = {x.id for x in ast.walk(E) if isinstance(x, ast.Name)}
    from ..syn import const_int, incr_of
    # `w = v + k` (k > 0) ... `v = w`: v grows through a temporary, provided that is the only store to v in the loop
    v_stores = [n for n in ast.walk(loop) if isinstance(n, (ast.Assign, ast.AugAssign)) and any(
        isinstance(x, ast.Name) and x.id == v and isinstance(x.ctx, ast.Store) for t in (n.targets if isinstance(n, ast.Assign) else [n.target]) for x in ast.walk(t))]
    via_temp: set[int] = set()
    if len(v_stores) == 1 and isinstance(v_stores[0], ast.Assign) and len(v_stores[0].targets) == 1 and isinstance(v_stores[0].value, ast.Name):
        w = v_stores[0].value.id
        wdefs = [n for n in ast.walk(loop) if isinstance(n, (ast.Assign, ast.AugAssign, ast.For, ast.comprehension, ast.NamedExpr)) and any(
            isinstance(x, ast.Name) and x.id == w and isinstance(x.ctx, ast.Store) for x in ast.walk(
                n.targets[0] if isinstance(n, ast.Assign) and len(n.targets) == 1 else getattr(n, "target", n)))]
        if wdefs and all(isinstance(d_, ast.Assign) and len(d_.targets) == 1 and isinstance(d_.targets[0], ast.Name) and isinstance(d_.value, ast.BinOp)
                         and isinstance(d_.value.op, ast.Add) and isinstance(d_.value.left, ast.Name) and d_.value.left.id == v
                         and (const_int(d_.value.right) or 0) > 0 for d_ in wdefs):
            via_temp.add(id(v_stores[0]))
    for n in ast.walk(loop):
        if id(n) in via_temp:
            continue
        inc = incr_of(n) if isinstance(n, (ast.Assign, ast.AugAssign)) else None
        if inc is not None and inc[0] == v:
            k = const_int(inc[1])
            if not (inc[2] and k is not None and k > 0):
                return False
            continue
        if isinstance(n, ast.Assign):
            for t in n.targets:
                for x in ast.walk(t):
                    if isinstance(x, ast.Name) and isinstance(x.ctx, ast.Store) and (x.id == v or x.id in enames):
                        return False
        if isinstance(n, ast.AugAssign) and isinstance(n.target, ast.Name):
            if n.target.id in enames or n.target.id == v:
                return False
        if isinstance(n, (ast.For, ast.comprehension)):
            for x in ast.walk(n.target):
                if isinstance(x, ast.Name) and (x.id == v or x.id in enames):
                    return False
    found = False
    for n in ast.walk(loop):
        if isinstance(n, ast.If) and isinstance(n.test, ast.Compare) and len(n.test.ops) == 1 and isinstance(n.test.ops[0], ast.Eq) \
                and U(n.test.left) == v and U(n.test.comparators[0]) == U(E):
            for b in n.body:
                for a in ast.walk(b):
                    if isinstance(a, ast.Assign) and _lit_truth(a.value) is True:
                        for t in a.targets:
                            for x in ast.walk(t):
                                if isinstance(x, ast.Name) and x.id in flags:
                                    res[id(n.test)] = x.id
                                    found = True
    return found


def _level_delta(c: Ctx, f: Func, root: ast.AST, summaries: dict[Func, int | None], problems: list[str]) -> int:
    """Net change of the state level by the expressions evaluated at one CFG node."""
    push_b, push_i, pend = _push_funcs(c)
    d = 0
    for call in ast.walk(root):
        if not isinstance(call, ast.Call):
            continue
        cs = c.cg.site_of.get(call)
        if cs is None or not cs.callees:
            continue
        if push_b in cs.callees or push_i in cs.callees:
            arg = None
            for k in call.keywords:
                if k.arg == "nesting":
                    arg = k.value
            if arg is None and len(call.args) > 2:
                arg = call.args[2]
            ni = literal_ints(arg)
            if ni is None or len(ni) != 1:
                problems.append(f"push with a non-literal nesting at line {call.lineno}")
            else:
                d += ni[0]
            continue
        for g in cs.callees:
            s = summaries.get(g, 0)
            if s is None:
                problems.append(f"call of {g.short}, whose own level effect is not constant, at line {call.lineno}")
            elif s != 0:
                d += s
                break
    return d


def level_offsets(c: Ctx, f: Func, summaries: dict[Func, int | None]) -> tuple[dict[int, set], list[str], set[str]]:
    """Typestate (flag valuation, level offset) per CFG node."""
    cfg = c.cfg(f)
    flags = _flags_of(f)
    once = _once_only(f, flags)
    # flags whose falsy assignments are all the constant None (so that `is None` <=> falsy)
    none_flags = set()
    for fl_ in flags:
        vals = [n_.value for n_ in own_nodes(f.node) if isinstance(n_, (ast.Assign, ast.AnnAssign)) and n_.value is not None and any(
            isinstance(x_, ast.Name) and x_.id == fl_ and isinstance(x_.ctx, ast.Store)
            for t_ in (n_.targets if isinstance(n_, ast.Assign) else [n_.target]) for x_ in ast.walk(t_))]
        if all((isinstance(v_, ast.Constant) and v_.value is None) or _lit_truth(v_) is True for v_ in vals):
            none_flags.add(fl_)
    sc = c.tf.scope(f)
    problems: list[str] = []

    def step(n: Node, s, label: str, succ: Node):
        fl, off = s
        if abs(off) > 8:
            if "level offset diverges (unbalanced push in a loop)" not in problems:
                problems.append("level offset diverges (unbalanced push in a loop)")
            return []
        a = n.ast
        if a is None:
            return [s]
        if label == "exc":
            return [s]
        if n.kind == "test":
            if isinstance(a, ast.Name) and a.id in flags and label in ("T", "F"):
                if (label == "T") != (a.id in fl):
                    return []
            # `flag is None` / `flag is not None` for a flag whose falsy values are all None and whose truthy values are not
            if isinstance(a, ast.Compare) and len(a.ops) == 1 and isinstance(a.left, ast.Name) and a.left.id in flags and label in ("T", "F") \
                    and isinstance(a.comparators[0], ast.Constant) and a.comparators[0].value is None and a.left.id in none_flags:
                is_none = (label == "T") == isinstance(a.ops[0], (ast.Is, ast.Eq))
                if is_none == (a.left.id in fl):
                    return []
            if id(a) in once and label == "T" and once[id(a)] in fl:
                return []
            d = _level_delta(c, f, a, summaries, problems)
            return [(fl, off + d)]
        if n.kind in ("for", "with", "except"):
            d = 0
            for root in CFG.roots(n):
                d += _level_delta(c, f, root, summaries, problems)
            return [(fl, off + d)]
        if n.kind != "stmt":
            return [s]
        d = 0
        nf = set(fl)
        if isinstance(a, (ast.FunctionDef, ast.AsyncFunctionDef, ast.ClassDef)):
            return [s]
        d += _level_delta(c, f, a, summaries, problems)
        if isinstance(a, ast.AugAssign) and isinstance(a.target, ast.Attribute) and a.target.attr == "level" \
                and sc.type(a.target.value) in STATE_TYPES:
            li = literal_ints(a.value)
            if li and len(li) == 1 and isinstance(a.op, (ast.Add, ast.Sub)):
                d += li[0] if isinstance(a.op, ast.Add) else -li[0]
            else:
                problems.append(f"state level changed by a non-literal amount at line {a.lineno}")
        elif isinstance(a, ast.Assign) and any(isinstance(t, ast.Attribute) and t.attr == "level" and sc.type(t.value) in STATE_TYPES
                                               for t in a.targets):
            problems.append(f"state level overwritten at line {a.lineno}")
        if isinstance(a, ast.Assign):
            t_ = _lit_truth(a.value)
            for t in a.targets:
                for x in ([t] if isinstance(t, ast.Name) else []):
                    if x.id in flags:
                        if t_ is True:
                            nf.add(x.id)
                        elif t_ is False:
                            nf.discard(x.id)
        elif isinstance(a, ast.AnnAssign) and isinstance(a.target, ast.Name) and a.target.id in flags and a.value is not None:
            t_ = _lit_truth(a.value)
            if t_ is True:
                nf.add(a.target.id)
            elif t_ is False:
                nf.discard(a.target.id)
        return [(frozenset(nf), off + d)]

    IN = propagate(cfg, [(frozenset(), 0)], step)
    return IN, problems, flags


def level_summaries(c: Ctx) -> tuple[dict[Func, int | None], dict[Func, tuple[list[int], list[str], set[str]]]]:
    """Net level effect of every function of the parse phase that takes a parser state (None = not constant).
    Co-inductive: registered rules and dispatchers are assumed neutral while each one is verified."""
    cached = getattr(c, "_lvl_summaries", None)
    if cached is not None:
        return cached
    push_b, push_i, pend = _push_funcs(c)
    funcs = []
    for f in sorted(c.cg.parse_phase(), key=lambda x: x.qual):
        if f in (push_b, push_i):
            continue
        sc = c.tf.scope(f)
        if f.name != "__init__" and any(sc.env.get(a.arg) in STATE_TYPES for a in f.node.args.posonlyargs + f.node.args.args):
            funcs.append(f)
    summaries: dict[Func, int | None] = {f: 0 for f in funcs}
    detail: dict[Func, tuple[list[int], list[str], set[str]]] = {}
    for _ in range(6):
        changed = False
        for f in funcs:
            IN, problems, flags = level_offsets(c, f, summaries)
            cfg = c.cfg(f)
            offs = sorted({off for (_, off) in IN[cfg.exit.id]})
            detail[f] = (offs, problems, flags)
            new: int | None = offs[0] if len(offs) == 1 and not problems else (0 if not offs else None)
            if new != summaries[f]:
                summaries[f] = new
                changed = True
        if not changed:
            break
    c._lvl_summaries = (summaries, detail)          # type: ignore[attr-defined]
    return summaries, detail


def rule_pair(c: Ctx) -> RuleResult:
    r = RuleResult("PAIR", "every rule function and dispatcher is level-neutral on every path (push summarised as +nesting); open and "
                           "close literals agree (suffix <-> nesting, X_open has an X_close with the same tag in the same function)")
    summaries, detail = level_summaries(c)
    rule_funcs = {reg.func for reg in c.reg.all_rule_funcs()}
    for f, (offs, problems, flags) in sorted(detail.items(), key=lambda kv: kv[0].qual):
        r.functions += 1
        r.paths += min(c.cfg(f).paths_count(), 10**6)
        if f.name == "__init__":
            continue                       # constructors initialise the level; there is no entry value to preserve
        if f in _push_parts(c):
            continue                       # a part of push (called from it only): judged with push by LVL
        bad = [o for o in offs if o != 0]
        key = f"{f.short}|neutral"
        note = (f" (flags {sorted(flags)})" if flags else "")
        if problems:
            r.add(key, c.where(f, f.node), f.short, f"def {f.name}", "violation", "level effect not decidable: " + "; ".join(sorted(set(problems))))
        elif bad:
            # where does a non-zero offset reach the exit?
            cfg = c.cfg(f)
            IN, _, _ = level_offsets(c, f, summaries)
            ex = []
            for (p, label) in cfg.exit.pred:
                for (fl, off) in IN[p.id]:
                    if off != 0 or True:
                        pass
            lines = sorted({p.lineno for (p, _) in cfg.exit.pred if any(True for _ in IN[p.id])})
            r.add(key, c.where(f, f.node), f.short, f"def {f.name}", "violation",
                  f"returns with the nesting level changed by {bad} on some path (exits at lines {lines}): an open token without its "
                  f"close (or the reverse) leaves every later token mis-levelled and the stream unbalanced" + note)
        else:
            r.add(key, c.where(f, f.node), f.short, f"def {f.name}", "discharged",
                  ("level offset 0 at every exit" + note) if offs else "trivial: no exit reached (does not return normally)")
    # ---- (ii) literal agreement
    sites = [ts for ts in token_sites(c) if ts.func in c.cg.api_phase()]
    push_b, push_i, pend = _push_funcs(c)
    per_func: dict[Func, list[TokSite]] = {}
    for ts in sites:
        if ts.via == "Token" and ts.func in (push_b, push_i):
            continue
        per_func.setdefault(ts.func, []).append(ts)
    for f, tss in sorted(per_func.items(), key=lambda kv: kv[0].qual):
        opens: dict[str, list[TokSite]] = {}
        closes: dict[str, list[TokSite]] = {}
        for ts in tss:
            kinds = ts.kinds
            nest = literal_ints(ts.nesting_expr) if ts.nesting_expr is not None else None
            if ts.via == "retype" and "nesting" not in ts.stores:
                # a retype that keeps the nesting (text_special -> text): the new kind must be nesting-0 by name
                if kinds and all(not k.endswith(("_open", "_close")) for k in kinds):
                    r.add(f"{f.short}|retype|{'/'.join(kinds)}", c.where(f, ts.node), f.short, U(ts.node)[:70], "discharged",
                          "trivial: retype to a self-contained kind, nesting untouched")
                    continue
                r.add(f"{f.short}|retype|{'/'.join(kinds or ['?'])}", c.where(f, ts.node), f.short, U(ts.node)[:70], "violation",
                      "token retyped to an open/close kind without setting its nesting")
                continue
            if kinds is None or nest is None:
                r.add(f"{f.short}|site|{alpha(f, ts.node)[:60]}", c.where(f, ts.node), f.short, U(ts.node)[:70], "violation",
                      "token kind or nesting is not a literal: pairing cannot be decided (and the renderer dispatches on the kind)")
                continue
            ok = True
            for k in kinds:
                want = 1 if k.endswith("_open") else (-1 if k.endswith("_close") else 0)
                if any(n != want for n in nest):
                    ok = False
            key = f"{f.short}|{'/'.join(kinds)}|{ts.via}"
            if ok:
                r.add(key, c.where(f, ts.node), f.short, U(ts.node)[:70], "discharged", f"kind suffix agrees with nesting {nest}")
            else:
                r.add(key, c.where(f, ts.node), f.short, U(ts.node)[:70], "violation",
                      f"kind {kinds} carries nesting {nest}: `_open` must be 1, `_close` -1, anything else 0 (the tree builder and the "
                      f"renderer pair tokens by nesting)")
            for k in kinds:
                if k.endswith("_open"):
                    opens.setdefault(k[:-5], []).append(ts)
                elif k.endswith("_close"):
                    closes.setdefault(k[:-6], []).append(ts)
        for stem in sorted(set(opens) | set(closes)):
            o, cl = opens.get(stem, []), closes.get(stem, [])
            key = f"{f.short}|pair|{stem}"
            anchor = (o or cl)[0]
            if not o or not cl:
                r.add(key, c.where(f, anchor.node), f.short, f"{stem}_open / {stem}_close", "violation",
                      f"{'no close' if o else 'no open'} for `{stem}` in the function that produces the other half")
                continue
            tags_o = {U(t.tag_expr) if t.tag_expr is not None else "?" for t in o}
            tags_c = {U(t.tag_expr) if t.tag_expr is not None else "?" for t in cl}
            mk_o = {U(t.stores["markup"]) for t in o if "markup" in t.stores}
            mk_c = {U(t.stores["markup"]) for t in cl if "markup" in t.stores}
            pairwise = ""
            if len(o) == len(cl):
                for a_, b_ in zip(sorted(o, key=lambda t: t.lineno), sorted(cl, key=lambda t: t.lineno)):
                    for fld in ("markup", "info"):
                        va = U(a_.stores[fld]) if fld in a_.stores else None
                        vb = U(b_.stores[fld]) if fld in b_.stores else None
                        if va != vb and (va is not None or vb is not None):
                            pairwise = (f"the `{stem}_open` at line {a_.lineno} carries {fld} {va} but its `{stem}_close` at line "
                                        f"{b_.lineno} carries {vb}")
            if tags_o != tags_c:
                r.add(key, c.where(f, anchor.node), f.short, f"{stem}_open / {stem}_close", "violation",
                      f"open and close of `{stem}` carry different tags: {sorted(tags_o)} vs {sorted(tags_c)}")
            elif mk_o != mk_c and mk_o and mk_c:
                r.add(key, c.where(f, anchor.node), f.short, f"{stem}_open / {stem}_close", "violation",
                      f"open and close of `{stem}` carry different markup: {sorted(mk_o)} vs {sorted(mk_c)}")
            elif pairwise:
                r.add(key, c.where(f, anchor.node), f.short, f"{stem}_open / {stem}_close", "violation",
                      pairwise + ": opening and closing tokens must pair up with matching markup")
            else:
                r.add(key, c.where(f, anchor.node), f.short, f"{stem}_open / {stem}_close", "discharged",
                      f"both halves in this function with tag {sorted(tags_o)}")
    r.floor = 100
    return r


def _push_parts(c: Ctx) -> set:
    """Private methods of a state class that are called from its push methods only (directly, `self._m()`): the bookkeeping of
    push moved into helpers.  They are part of push: LVL evaluates them in place, PAIR does not hold them to level-neutrality on
    their own, PUSH lets them store the level."""
    push_b, push_i, pend = _push_funcs(c)
    pushes = {push_b, push_i, pend}
    out: set = set()
    for g in c.p.all_funcs():
        if g.cls is None or not g.name.startswith("_") or g.name.startswith("__") or g in pushes:
            continue
        sites = c.cg.callers.get(g, [])
        if sites and all(cs.caller in pushes and cs.caller.cls == g.cls and cs.kind == "method" for cs in sites):
            out.add(g)
    return out


# ------------------------------------------------------------------------------------------------ PUSH
def rule_push(c: Ctx) -> RuleResult:
    r = RuleResult("PUSH", "in the block and inline rule modules only the push methods add tokens to a state's stream and only they "
                           "(and skipToken's paired += 1 / -= 1) store the nesting level")
    push_b, push_i, pend = _push_funcs(c)
    allowed = {push_b, push_i, pend} | _push_parts(c)
    for f in sorted(c.cg.parse_phase(), key=lambda x: x.qual):
        if not (f.module.rel.startswith(("rules_block/", "rules_inline/")) or f.module.rel in ("parser_block.py", "parser_inline.py")):
            continue
        sc = c.tf.scope(f)
        r.functions += 1
        for n in own_nodes(f.node):
            # additions to <state>.tokens
            if isinstance(n, ast.Call) and isinstance(n.func, ast.Attribute) and n.func.attr in ("append", "insert", "extend"):
                b = n.func.value
                if isinstance(b, ast.Attribute) and b.attr == "tokens" and sc.type(b.value) in STATE_TYPES:
                    key = f"{f.short}|tokens.{n.func.attr}"
                    if f in allowed:
                        r.add(key, c.where(f, n), f.short, U(n)[:70], "discharged", "inside a push method")
                    else:
                        r.add(key, c.where(f, n), f.short, U(n)[:70], "violation",
                              "a rule adds a token to the stream without push(): its level / block flag / pending text are not maintained")
            tg: list[ast.AST] = []
            if isinstance(n, ast.Assign):
                tg = list(n.targets)
            elif isinstance(n, (ast.AugAssign, ast.AnnAssign)):
                tg = [n.target]
            for t in tg:
                if isinstance(t, ast.Attribute) and t.attr == "level" and sc.type(t.value) in STATE_TYPES:
                    key = f"{f.short}|level-store|{alpha(f, n)}"
                    if f in allowed or f.name == "__init__":
                        r.add(key, c.where(f, n), f.short, U(n), "discharged", "inside a push method / constructor")
                    elif isinstance(n, ast.AugAssign) and _paired_level(f, n):
                        r.add(key, c.where(f, n), f.short, U(n), "discharged", "paired += 1 / -= 1 around a validation-mode dispatch (same block, no exit from the region in between)")
                    else:
                        r.add(key, c.where(f, n), f.short, U(n), "violation",
                              "the nesting level is stored outside push(): token levels no longer equal their depth")
    r.floor = 8
    return r


def _paired_level(f: Func, n: ast.AugAssign) -> bool:
    for blk in _blocks(f.node):
        if n in blk:
            augs = [s for s in blk if isinstance(s, ast.AugAssign) and U(s.target) == U(n.target)]
            if len(augs) != 2:
                return False
            a, b = augs
            if not (isinstance(a.op, ast.Add) and isinstance(b.op, ast.Sub) and U(a.value) == U(b.value)):
                return False
            i, j = blk.index(a), blk.index(b)
            for mid in blk[i + 1:j]:
                for x in ast.walk(mid):
                    if isinstance(x, (ast.Return, ast.Raise)):
                        return False
                    if isinstance(x, (ast.Break, ast.Continue)):
                        # leaves the region only if its loop is not itself inside the region
                        p_ = f.module.parents.get(x)
                        inner_loop = False
                        while p_ is not None and p_ is not mid and p_ is not f.node:
                            if isinstance(p_, (ast.For, ast.While)):
                                inner_loop = True
                                break
                            p_ = f.module.parents.get(p_)
                        if not inner_loop and not isinstance(mid, (ast.For, ast.While)):
                            return False
            return True
    return False


# ------------------------------------------------------------------------------------------------ SILENT
SILENT_OK_FIELDS = {"pos", "posMax", "cache", "backticks", "backticksScanned", "line"}


def rule_silent(c: Ctx) -> RuleResult:
    r = RuleResult("SILENT", "validation mode is pure: in every rule that can be dispatched with silent=True, every push, pending / "
                             "delimiter / level / context / line-table / env write and nested parse is dominated by `silent` being false")
    targets: list[tuple[Func, str]] = []
    for reg in c.reg.rules["block"]:
        if reg.alt and len(reg.func.node.args.args) >= 4:
            targets.append((reg.func, reg.func.node.args.args[3].arg))
    seen = set()
    for reg in c.reg.rules["inline"]:
        if reg.func not in seen and len(reg.func.node.args.args) >= 2:
            seen.add(reg.func)
            targets.append((reg.func, reg.func.node.args.args[1].arg))
    push_b, push_i, pend = _push_funcs(c)
    done: set[Func] = set()
    queue: list[tuple[Func, str, str | None]] = [(f, sil, None) for (f, sil) in targets]
    while queue:
        f, sil, st_override = queue.pop(0)
        if (f, sil) in done:
            continue
        done.add((f, sil))          # type: ignore[arg-type]
        r.functions += 1
        st = st_override or f.node.args.args[0].arg
        cfg, res = c.facts(f)
        effects: list[tuple[ast.AST, str]] = []
        for n in own_nodes(f.node):
            if isinstance(n, ast.Call):
                cs = c.cg.site_of.get(n)
                if cs is not None and cs.callees:
                    if push_b in cs.callees or push_i in cs.callees or pend in cs.callees:
                        effects.append((n, "push"))
                        continue
                    ws = {fld for (root, fld) in c.eff.site_writes(cs) if root == st}
                    bad = sorted(w for w in ws if w not in SILENT_OK_FIELDS)
                    if bad:
                        if cs.kind.startswith("dispatch:") and len(n.args) >= 2 and isinstance(n.args[-1], ast.Constant) and n.args[-1].value is True:
                            continue          # a terminator probe: itself a validation-mode call (checked for each dispatched rule)
                        if all(g.name in ("skipToken",) for g in cs.callees) or all(g.name == "parseLinkLabel" for g in cs.callees):
                            continue          # validation-mode scanners: they dispatch with silent=True and touch level in a paired way
                        # a private helper that is handed the state and the silent flag: it is held to the same rule itself
                        if len(cs.callees) == 1 and cs.kind in ("direct", "method") and (
                                cs.callees[0].module is f.module or (cs.kind == "direct" and cs.callees[0].module.rel.rsplit("/", 1)[0] == f.module.rel.rsplit("/", 1)[0]
                                                                     and cs.callees[0] not in {reg_.func for ch_ in c.reg.rules.values() for reg_ in ch_})):
                            g = cs.callees[0]
                            gp = [a.arg for a in g.node.args.posonlyargs + g.node.args.args]
                            p_st = next((pn for pn in gp if (a_ := c.eff.arg_for_param(cs, g, pn)) is not None and U(a_) == st), None)
                            p_sil = next((pn for pn in gp if (a_ := c.eff.arg_for_param(cs, g, pn)) is not None and U(a_) == sil), None)
                            if p_st and p_sil and not any(isinstance(x, ast.Name) and x.id == p_sil and isinstance(x.ctx, ast.Store) for x in own_nodes(g.node)):
                                queue.append((g, p_sil, p_st))
                                continue
                            # handed the state only: everything it does must be allowed in validation mode as it stands - unless
                            # the call itself is dominated by `silent` being false (then it is an ordinary effect, judged below)
                            dominated = all((z_ := res.get(cn_.id)) is None or z_.holds(sil, False) for cn_ in cfg.owner(n)) if sil else False
                            if p_st and not dominated:
                                queue.append((g, "", p_st))
                                continue
                        effects.append((n, f"call of {U(n.func)} which may write {st}.{bad}"))
                elif isinstance(n.func, ast.Attribute) and n.func.attr in ("append", "extend", "insert", "pop", "update", "setdefault", "clear"):
                    b = n.func.value
                    root = b
                    while isinstance(root, (ast.Attribute, ast.Subscript)):
                        root = root.value
                    if isinstance(root, ast.Name) and root.id == st and not (isinstance(b, ast.Attribute) and b.attr in SILENT_OK_FIELDS):
                        effects.append((n, f"mutation of {U(b)}"))
            tg: list[ast.AST] = []
            if isinstance(n, ast.Assign):
                tg = list(n.targets)
            elif isinstance(n, (ast.AugAssign, ast.AnnAssign)):
                tg = [n.target]
            for t in tg:
                base = t
                first = None
                while isinstance(base, (ast.Attribute, ast.Subscript)):
                    if isinstance(base, ast.Attribute):
                        first = base.attr
                    base = base.value
                if isinstance(base, ast.Name) and base.id == st and first is not None and first not in SILENT_OK_FIELDS:
                    effects.append((n, f"store to {U(t)}"))
        for (node, what) in effects:
            ok = True
            for cn in cfg.owner(node):
                z = res.get(cn.id)
                if z is None:
                    continue
                if not sil or not z.holds(sil, False):
                    ok = False
            key = f"{f.short}|{what.split(' which')[0][:40]}|{alpha(f, node)[:50]}"
            if ok:
                r.add(key, c.where(f, node), f.short, U(node)[:70], "discharged", f"dominated by `{sil}` being false")
            elif _restored_scratch(c, f, node, st):
                r.add(key, c.where(f, node), f.short, U(node)[:70], "discharged",
                      "scratch write that is saved before and restored after on every path (not observable by the caller)")
            else:
                r.add(key, c.where(f, node), f.short, U(node)[:70], "violation",
                      f"{what} can execute in validation mode (silent=True" + ("" if sil else "; this helper is called on a path where silent may be true") +
                      "): a terminator / skipToken probe would change the token stream or parser context")
    r.floor = 40
    return r


def _restored_scratch(c: Ctx, f: Func, node: ast.AST, st: str) -> bool:
    """A store `state.X = v` in validation mode is harmless when value numbering shows state.X back at its entry value at every
    return of the function (list_block's parentType / blockquote's save-restore groups are handled by CTX; here: scalars)."""
    tgt = None
    if isinstance(node, ast.Assign) and len(node.targets) == 1:
        tgt = node.targets[0]
    elif isinstance(node, ast.AugAssign):
        tgt = node.target
    if not (isinstance(tgt, ast.Attribute) and isinstance(tgt.value, ast.Name) and tgt.value.id == st):
        return False
    key = f"{st}.{tgt.attr}"
    cfg, res, vn = analyse(c, f)
    for n in cfg.nodes:
        if n.kind == "stmt" and isinstance(n.ast, ast.Return) and res.get(n.id) is not None:
            if VN.get(res[n.id], key) != entry(key):
                return False
    return True


# ------------------------------------------------------------------------------------------------ KIDS
def rule_kids(c: Ctx) -> RuleResult:
    r = RuleResult("KIDS", "a token's children are stored only on inline / image carriers (or rewritten from the same token's own children)")
    for f in sorted(c.p.all_funcs(), key=lambda x: x.qual):
        if f.module.rel.startswith("cli/") or f.module.rel in ("tree.py",):
            continue
        sc = c.tf.scope(f)
        stores = []
        for n in own_nodes(f.node):
            if isinstance(n, (ast.Assign, ast.AnnAssign)):
                tg = n.targets if isinstance(n, ast.Assign) else [n.target]
                for t in tg:
                    if isinstance(t, ast.Attribute) and t.attr == "children" and sc.type(t.value) == "Token" and getattr(n, "value", None) is not None:
                        stores.append((n, t))
        if not stores:
            continue
        r.functions += 1
        cfg = c.cfg(f)
        rd = Reaching(cfg)
        _, res = c.facts(f)
        for (n, t) in stores:
            recv = t.value
            key = f"{f.short}|{alpha(f, n)[:70]}"
            how = _kids_ok(c, f, n, recv, rd, res, cfg)
            if how:
                r.add(key, c.where(f, n), f.short, U(n)[:80], "discharged", how)
            else:
                r.add(key, c.where(f, n), f.short, U(n)[:80], "violation",
                      "children stored on a token that is not known to be an `inline` or `image` carrier: only those may carry "
                      "children (the tree builder and the renderer descend into nothing else)")
    r.floor = 8
    return r


def _kids_ok(c: Ctx, f: Func, n: ast.AST, recv: ast.AST, rd: Reaching, res: dict, cfg: CFG) -> str:
    value = n.value            # type: ignore[attr-defined]
    # (b) rewrite of the same receiver's own children
    rtxt = U(recv)
    if any(isinstance(x, ast.Attribute) and x.attr == "children" and U(x.value) == rtxt for x in ast.walk(value)):
        return "rewrite: the new list is derived from the same token's children"
    if isinstance(value, ast.Name) or (isinstance(value, ast.Call)):
        # value derived from a local that was read from recv.children  (tokens = inline_token.children ... = arrayReplaceAt(tokens, ..))
        for x in ast.walk(value):
            if isinstance(x, ast.Name):
                for d in rd.at_ast(n, x.id):
                    v = d.value
                    if v is not None and any(isinstance(y, ast.Attribute) and y.attr == "children" and U(y.value) == rtxt for y in ast.walk(v)):
                        return "rewrite: the new list is derived from a local read from the same token's children"
                    # chained: tokens reassigned from a previous rewrite of the same receiver
                    if d.stmt is not None and isinstance(d.stmt, ast.Assign) and any(
                            isinstance(t, ast.Attribute) and t.attr == "children" and U(t.value) == rtxt for t in d.stmt.targets):
                        return "rewrite: the local aliases the children list stored on the same token"
    # (a) receiver is a fresh inline / image token
    if isinstance(recv, ast.Name):
        ds = rd.at_ast(n, recv.id)
        kinds: set[str] = set()
        ok = bool(ds)
        for d in ds:
            v = d.value
            if d.kind == "assign" and isinstance(v, ast.Call):
                cs = c.cg.site_of.get(v)
                te = None
                if cs is not None and (cs.kind == "ctor" and cs.detail == "Token" or any(g.name == "push" for g in cs.callees)):
                    te = v.args[0] if v.args else next((k.value for k in v.keywords if k.arg in ("ttype", "type")), None)
                ks = literal_strs(te) if te is not None else None
                if ks and all(k in ("inline", "image") for k in ks):
                    kinds.update(ks)
                    continue
            ok = False
        if ok:
            return f"receiver was created in this function with kind {sorted(kinds)}"
        # iteration variable under a type == 'inline' | 'image' fact
        for cn in cfg.owner(n):
            z = res.get(cn.id)
            if z is None:
                continue
            if z.holds(f"{recv.id}.type == 'inline'", True) or z.holds(f"{recv.id}.type == 'image'", True):
                return f"dominated by {recv.id}.type == 'inline'/'image'"
    # Token.from_dict style: cls(**dct) then children rebuilt from the dict's own children entry
    if f.name == "from_dict":
        return "deserialisation: children rebuilt from the serialised token's own children entry"
    if f.name in ("__init__", "__post_init__"):
        return "constructor"
    return ""


# ------------------------------------------------------------------------------------------------ LIFE
def rule_life(c: Ctx) -> RuleResult:
    r = RuleResult("LIFE", "the placeholder kind text_special is produced only by escape / entity and is turned back into text in "
                           "every token list the inline parser can fill (children of inline tokens and of image tokens)")
    sites = [ts for ts in token_sites(c) if ts.func in c.cg.api_phase()]
    producers = sorted({ts.func for ts in sites if ts.kinds and "text_special" in ts.kinds and ts.via != "retype"}, key=lambda f: f.qual)
    if not producers:
        raise AnchorError("no producer of kind text_special found")
    for f in producers:
        r.add(f"producer|{f.short}", c.where(f, f.node), f.short, "push('text_special', ...)", "discharged",
              "producer of the placeholder kind (an inline rule: runs wherever ParserInline.parse is called)")
    # parents = call sites of ParserInline.parse
    ipar = c.p.func("parser_inline.py:ParserInline.parse")
    parents: list[tuple[Func, ast.Call, str]] = []
    for g, ss in c.cg.sites.items():
        for cs in ss:
            if ipar in cs.callees and g in c.cg.api_phase():
                tok_arg = cs.node.args[3] if len(cs.node.args) > 3 else next((k.value for k in cs.node.keywords if k.arg == "tokens"), None)
                parents.append((g, cs.node, U(tok_arg) if tok_arg is not None else "?"))
    if len(parents) < 2:
        raise AnchorError(f"only {len(parents)} call sites of ParserInline.parse found (expected the core inline rule and the image rule)")
    # eliminators: functions that store 'text' into .type under a type == 'text_special' fact
    elims: list[Func] = []
    for f in c.cg.api_phase():
        for n in own_nodes(f.node):
            if isinstance(n, ast.Assign) and isinstance(n.value, ast.Constant) and n.value.value == "text" \
                    and any(isinstance(t, ast.Attribute) and t.attr == "type" for t in n.targets):
                cfg, res = c.facts(f)
                t = next(t for t in n.targets if isinstance(t, ast.Attribute) and t.attr == "type")
                recv = U(t.value)
                for cn in cfg.owner(n):
                    z = res.get(cn.id)
                    if z is not None and z.holds(f"{recv}.type == 'text_special'", True) and f not in elims:
                        elims.append(f)
    if not elims:
        r.add("eliminator", "markdown_it/rules_core/text_join.py:0", "-", "text_special -> text", "violation",
              "no function turns text_special back into text: the placeholder kind survives into the output stream")
        r.floor = 3
        return r
    # the eliminator is total and closed under `children`: image descriptions nest to any depth (an image inside an image
    # description), so the conversion must (a) run on every path through the function that performs it and (b) call itself (or
    # another eliminator) on the children of every element it visits
    for e in sorted(elims, key=lambda f: f.qual):
        conv = _life_conversion_loops(c, e)
        if not conv:
            continue
        for (loop, var, lst_param) in conv:
            cfg = c.cfg(e)
            heads = [n for n in cfg.nodes if n.kind in ("for", "join") and n.ast is loop]
            # (a) no return bypasses the loop, except behind a test that the list is empty
            bypass = ""
            if heads and lst_param is not None:
                seen: set[int] = set()
                stack = [cfg.entry]
                while stack:
                    x = stack.pop()
                    if x.id in seen or x in heads:
                        continue
                    seen.add(x.id)
                    if x.kind == "stmt" and isinstance(x.ast, ast.Return):
                        bypass = f"line {x.ast.lineno}"
                        break
                    for (s_, lab) in x.succ:
                        if lab in ("exc", "raise"):
                            continue
                        if x.kind == "test" and x.ast is not None and _is_empty_test(x.ast, lst_param, lab):
                            continue          # the edge on which the list is known to be empty
                        stack.append(s_)
            r.add(f"elim|total|{e.short}", c.where(e, loop), e.short, f"for {var} in {lst_param or '<list>'}: ...", "violation" if bypass else "discharged",
                  f"a return ({bypass}) is reachable without passing the conversion loop: on that path the list - and the children of its "
                  f"elements (image descriptions) - keep their text_special tokens" if bypass else
                  "every path through the eliminator passes its conversion loop (or the list is empty)")
            # (b) recursion into <var>.children
            rec = ""
            for cs in c.cg.sites.get(e, []):
                if not any(g in elims for g in cs.callees) or not _node_within(cs.node, loop):
                    continue
                for a in cs.node.args:
                    a0 = _strip_iter(a)
                    if isinstance(a0, ast.Attribute) and a0.attr == "children" and U(a0.value) == var:
                        guards = _guards_between(e, cs.node, loop)
                        if all(_mentions_only(g_, var, ("children", "type")) for g_ in guards):
                            rec = f"{cs.callees[0].short}({U(a)}) inside the loop" + (f", guarded only by {[U(g_) for g_ in guards]}" if guards else "")
            r.add(f"elim|closed|{e.short}", c.where(e, loop), e.short, f"{e.short}({var}.children)", "discharged" if rec else "violation",
                  f"closed under children: {rec}" if rec else
                  f"the eliminator does not call itself on `{var}.children` for every element it visits: an image nested inside an image "
                  f"description keeps its text_special tokens (the traversal is not closed under `children`)")
    # (c) the driver hands every element of the stream it walks to the eliminator: inside the loop that contains the call, only
    # tests of the element's `type` and of its `children` being empty / None may skip it
    for h in sorted({cs.caller for e in elims for cs in c.cg.callers.get(e, []) if cs.caller not in elims and cs.caller in c.cg.api_phase()}, key=lambda f: f.qual):
        calls = [cs.node for cs in c.cg.sites.get(h, []) if any(e in cs.callees for e in elims)]
        for call in calls:
            loop = h.module.parents.get(call)
            while loop is not None and loop is not h.node and not isinstance(loop, ast.For):
                loop = h.module.parents.get(loop)
            if not isinstance(loop, ast.For) or not isinstance(loop.target, ast.Name):
                continue
            var = loop.target.id
            aliases = {n.targets[0].id for n in ast.walk(loop) if isinstance(n, ast.Assign) and len(n.targets) == 1 and isinstance(n.targets[0], ast.Name)
                       and U(_strip_iter(n.value)) == f"{var}.children"
                       and sum(1 for m in own_nodes(h.node) if isinstance(m, ast.Name) and isinstance(m.ctx, ast.Store) and m.id == n.targets[0].id) == 1}

            def allowed(t: ast.AST) -> bool:
                if _mentions_only(t, var, ("children", "type")):
                    return True
                # emptiness of an alias of the children list
                t0 = t
                while isinstance(t0, ast.UnaryOp) and isinstance(t0.op, ast.Not):
                    t0 = t0.operand
                if isinstance(t0, ast.Name) and t0.id in aliases:
                    return True
                if isinstance(t0, ast.Compare) and len(t0.ops) == 1 and isinstance(t0.left, ast.Name) and t0.left.id in aliases \
                        and isinstance(t0.ops[0], (ast.Is, ast.IsNot)) and isinstance(t0.comparators[0], ast.Constant) and t0.comparators[0].value is None:
                    return True
                return False
            cfg = c.cfg(h)
            head = next((n for n in cfg.nodes if n.kind == "for" and n.ast is loop), None)
            cnodes = set(x.id for x in cfg.owner(call))
            if head is None or not cnodes:
                continue
            inside = {id(x) for x in ast.walk(loop)}
            can: set[int] = set()
            stack = [x for x in cfg.nodes if x.id in cnodes]
            while stack:
                x = stack.pop()
                if x.id in can:
                    continue
                can.add(x.id)
                stack.extend(p for (p, l) in x.pred if p is not head and p.ast is not None and id(p.ast) in inside)
            bypass = None
            seen: set[int] = set()
            stack = [m for (m, l) in head.succ if l == "iter" or (m.ast is not None and id(m.ast) in inside)]
            while stack and bypass is None:
                x = stack.pop()
                if x.id in seen or x.id in cnodes:
                    continue
                seen.add(x.id)
                if x is head or x is cfg.exit or (x.ast is not None and id(x.ast) not in inside):
                    bypass = x
                    break
                succ = [(m, l) for (m, l) in x.succ if l != "exc"]
                if x.kind == "test" and x.ast is not None and allowed(x.ast):
                    succ = [(m, l) for (m, l) in succ if m.id in can] or succ
                stack.extend(m for (m, l) in succ)
            r.add(f"driver|{h.short}|{alpha(h, call)[:50]}", c.where(h, call), h.short, U(call)[:70], "violation" if bypass is not None else "discharged",
                  f"an element of `{U(loop.iter)}` can pass through the loop without reaching the eliminator behind a test other than of its "
                  f"type / of its children being empty: its text_special tokens (and those of nested image descriptions) survive" if bypass is not None else
                  f"every element of `{U(loop.iter)}` reaches the eliminator (only its type / empty children can skip it)")
    for (g, call, tokarg) in sorted(parents, key=lambda x: x[0].qual):
        # what kind of parent receives the list?
        kind = "inline" if g.module.rel.startswith("rules_core/") else ("image" if g.short == "image" else g.short)
        covered, how = _life_covered(c, g, call, tokarg, elims, kind)
        key = f"parent|{g.short}|{kind}"
        if covered:
            r.add(key, c.where(g, call), g.short, U(call)[:80], "discharged", how)
        else:
            r.add(key, c.where(g, call), g.short, U(call)[:80], "violation",
                  f"tokens parsed into the children of `{kind}` tokens can contain text_special, but the eliminator "
                  f"({', '.join(e.short for e in elims)}) never visits that list: the placeholder survives (and the alt text drops it)")
    r.floor = 4
    return r


def _node_within(n: ast.AST, outer: ast.AST) -> bool:
    return any(x is n for x in ast.walk(outer))


def _is_empty_test(test: ast.AST, lst: str, label: str) -> bool:
    """Is `label` the edge of `test` on which the list named lst is empty?  (`not lst` is stored by the CFG as `lst` with the
    edges swapped; `len(lst) == 0`, `lst == []`)"""
    if isinstance(test, ast.Name) and test.id == lst:
        return label == "F"
    if isinstance(test, ast.Compare) and len(test.ops) == 1:
        l_, op, r_ = test.left, test.ops[0], test.comparators[0]
        is_len = isinstance(l_, ast.Call) and isinstance(l_.func, ast.Name) and l_.func.id == "len" and l_.args and U(l_.args[0]) == lst
        if is_len and isinstance(r_, ast.Constant) and r_.value == 0:
            if isinstance(op, ast.Eq):
                return label == "T"
            if isinstance(op, (ast.NotEq, ast.Gt)):
                return label == "F"
        if is_len and isinstance(r_, ast.Constant) and r_.value == 1 and isinstance(op, ast.Lt):
            return label == "T"
    return False


def _guards_between(f: Func, n: ast.AST, outer: ast.AST) -> list[ast.AST]:
    out = []
    q = f.module.parents.get(n)
    while q is not None and q is not outer:
        if isinstance(q, (ast.If, ast.IfExp, ast.While)):
            out.append(q.test)
        q = f.module.parents.get(q)
    return out


def _mentions_only(test: ast.AST, var: str, attrs: tuple[str, ...]) -> bool:
    for x in ast.walk(test):
        if isinstance(x, ast.Name) and x.id != var:
            return False
        if isinstance(x, ast.Attribute) and not (U(x.value) == var and x.attr in attrs):
            return False
        if isinstance(x, ast.Call):
            return False
    return True


def _life_conversion_loops(c: Ctx, e: Func) -> list[tuple[ast.AST, str, str | None]]:
    """(loop statement, element expression text, list parameter name or None) for each loop of e in whose body an element's
    .type is turned from text_special into text."""
    out = []
    params = [a.arg for a in e.node.args.posonlyargs + e.node.args.args]
    for n in own_nodes(e.node):
        if isinstance(n, ast.Assign) and isinstance(n.value, ast.Constant) and n.value.value == "text" \
                and any(isinstance(t, ast.Attribute) and t.attr == "type" for t in n.targets):
            t = next(t for t in n.targets if isinstance(t, ast.Attribute) and t.attr == "type")
            recv = t.value
            q = e.module.parents.get(n)
            while q is not None and q is not e.node:
                if isinstance(q, ast.For) and isinstance(recv, ast.Name) and any(isinstance(x, ast.Name) and x.id == recv.id for x in ast.walk(q.target)):
                    it = q.iter
                    if isinstance(it, ast.Call) and isinstance(it.func, ast.Name) and it.func.id == "enumerate" and it.args:
                        it = it.args[0]
                    src = _strip_iter(it)
                    out.append((q, recv.id, src.id if isinstance(src, ast.Name) and src.id in params else None))
                    break
                if isinstance(q, (ast.For, ast.While)) and isinstance(recv, ast.Subscript) and isinstance(recv.value, ast.Name):
                    # index form: lst[i].type = 'text' inside a loop over i
                    out.append((q, U(recv), recv.value.id if recv.value.id in params else None))
                    break
                q = e.module.parents.get(q)
    return out


def _life_covered(c: Ctx, g: Func, call: ast.Call, tokarg: str, elims: list[Func], kind: str) -> tuple[bool, str]:
    # (1) the call site post-processes its own list with an eliminator
    for cs in c.cg.sites.get(g, []):
        if any(e in cs.callees for e in elims) and any(U(a) == tokarg for a in cs.node.args):
            return True, f"the list is post-processed by {cs.callees[0].short} at the call site"
    # (2) the eliminator's traversal reaches this parent kind
    need = "inline" if kind == "inline" else "nested"
    for e in elims:
        tags = _life_coverage(c, e)
        if need in tags:
            return True, (f"{e.short} converts the children of every inline token" if need == "inline" else
                          f"{e.short} also descends into the children of child tokens (image descriptions)") + f" [{tags[need]}]"
    return False, ""


def _strip_iter(e: ast.AST) -> ast.AST:
    while True:
        if isinstance(e, ast.BoolOp) and isinstance(e.op, ast.Or):
            e = e.values[0]
        elif isinstance(e, ast.Subscript) and isinstance(e.slice, ast.Slice):
            e = e.value
        elif isinstance(e, ast.Call) and isinstance(e.func, ast.Name) and e.func.id in ("list", "reversed", "iter", "tuple") and e.args:
            e = e.args[0]
        else:
            return e


def _loop_source(h: Func, name: str) -> ast.AST | None:
    for n in own_nodes(h.node):
        if isinstance(n, (ast.For, ast.comprehension)) and any(isinstance(x, ast.Name) and x.id == name for x in ast.walk(n.target)):
            it = n.iter
            if isinstance(it, ast.Call) and isinstance(it.func, ast.Name) and it.func.id == "enumerate" and it.args:
                it = it.args[0]
            return _strip_iter(it)
    return None


def _life_coverage(c: Ctx, e: Func) -> dict[str, str]:
    """Which lists does eliminator e convert?  'inline': children of the inline tokens of the block stream;
    'nested': children of tokens that are themselves children (image descriptions)."""
    tags: dict[str, str] = {}

    def classify_list(h: Func, lst: ast.AST, depth: int, via: str) -> None:
        """`lst` is an expression (in function h) denoting a token list whose elements get converted."""
        if depth > 4:
            return
        lst = _strip_iter(lst)
        if isinstance(lst, ast.Attribute) and lst.attr == "children" and isinstance(lst.value, ast.Subscript) \
                and not isinstance(lst.value.slice, ast.Slice):
            # <list>[i].children: children of an element of another token list
            base = _strip_iter(lst.value.value)
            btxt = U(base)
            if btxt.endswith(".tokens") and isinstance(base, ast.Attribute) and c.tf.scope(h).type(base.value) == "StateCore":
                tags.setdefault("inline", via + f"{h.short}: elements of the block stream by index")
            else:
                tags.setdefault("nested", via + f"{h.short}: children of `{btxt}[i]`")
            return
        if isinstance(lst, ast.Attribute) and lst.attr == "children" and isinstance(lst.value, ast.Name):
            owner = lst.value.id
            src = _loop_source(h, owner)
            if src is None and owner in [a.arg for a in h.node.args.posonlyargs + h.node.args.args]:
                # children of a token the function receives: a nested list unless every caller passes a top-level inline token
                for cs in c.cg.callers.get(h, []):
                    arg = c.eff.arg_for_param(cs, h, owner)
                    if isinstance(arg, ast.Name):
                        s2 = _loop_source(cs.caller, arg.id)
                        if s2 is not None:
                            fake = ast.Attribute(value=ast.Name(id=arg.id, ctx=ast.Load()), attr="children", ctx=ast.Load())
                            classify_list(cs.caller, fake, depth + 1, via)
                return
            if src is None:
                return
            stxt = U(src)
            if stxt.endswith(".tokens") and c.tf.scope(h).type(src.value if isinstance(src, ast.Attribute) else src) in ("StateCore",):
                tags.setdefault("inline", via + f"{h.short}: {owner} ranges over the block stream")
            else:
                # owner is an element of some other token list: its children are a nested list
                tags.setdefault("nested", via + f"{h.short}: {owner} is an element of `{stxt}`")
            return
        if isinstance(lst, ast.Name):
            params = [a.arg for a in h.node.args.posonlyargs + h.node.args.args]
            if lst.id in params:
                for cs in c.cg.callers.get(h, []):
                    arg = c.eff.arg_for_param(cs, h, lst.id)
                    if arg is not None:
                        classify_list(cs.caller, arg, depth + 1, via)
                return
            # a local: follow its plain assignments
            for n in own_nodes(h.node):
                if isinstance(n, ast.Assign) and any(isinstance(t, ast.Name) and t.id == lst.id for t in n.targets):
                    classify_list(h, n.value, depth + 1, via)

    for n in own_nodes(e.node):
        if isinstance(n, ast.Assign) and isinstance(n.value, ast.Constant) and n.value.value == "text" \
                and any(isinstance(t, ast.Attribute) and t.attr == "type" for t in n.targets):
            t = next(t for t in n.targets if isinstance(t, ast.Attribute) and t.attr == "type")
            root = t.value
            if isinstance(root, ast.Subscript) and not isinstance(root.slice, ast.Slice):
                # index-based traversal: <list>[i].type = "text"  -> the list itself is what gets converted
                classify_list(e, root.value, 0, "")
                continue
            while isinstance(root, (ast.Attribute, ast.Subscript)):
                root = root.value
            if not isinstance(root, ast.Name):
                continue
            src = _loop_source(e, root.id)
            if src is not None:
                classify_list(e, src, 0, "")
            elif root.id in [a.arg for a in e.node.args.posonlyargs + e.node.args.args]:
                # the token is handed in by the callers: which list does each caller take it from?
                for cs in c.cg.callers.get(e, []):
                    arg = c.eff.arg_for_param(cs, e, root.id)
                    if isinstance(arg, ast.Name):
                        src2 = _loop_source(cs.caller, arg.id)
                        if src2 is not None:
                            classify_list(cs.caller, src2, 1, f"via {e.short}: ")
                    elif isinstance(arg, ast.Subscript) and not isinstance(arg.slice, ast.Slice):
                        classify_list(cs.caller, arg.value, 1, f"via {e.short}: ")
    return tags


def _is_element_of_children(h: Func, e: ast.AST) -> bool:
    """Is expression e an element of some children list (loop variable over X.children / a parameter list / tokens[i])?"""
    if isinstance(e, ast.Subscript):
        return True
    if isinstance(e, ast.Name):
        for n in own_nodes(h.node):
            if isinstance(n, (ast.For, ast.comprehension)) and any(isinstance(x, ast.Name) and x.id == e.id for x in ast.walk(n.target)):
                it = n.iter
                if isinstance(it, ast.Call) and it.args:
                    it = it.args[0]
                txt = U(it)
                if ".children" in txt or txt in [a.arg for a in h.node.args.args] or isinstance(it, ast.Name):
                    # must not be the top-level state.tokens list (that gives inline tokens, whose children are the first level)
                    if not txt.endswith("state.tokens") and txt != "state.tokens":
                        return True
    return False


# ------------------------------------------------------------------------------------------------ MOVE
def rule_move(c: Ctx) -> RuleResult:
    """Reordering of the token stream: two stream positions are exchanged only across tokens of the moving rule's own pair.

    A rule that moves a token forward in the stream (the lone strikethrough marker that has to end up behind the closing tags
    of its own run) walks over the tokens it may cross with a loop.  Crossing a token of another construct (a `link_close`, an
    `em_close`) un-nests that construct.  Necessary condition, checked at every exchange of two elements of a token list in the
    parse phase: the loop that advances the target index continues only while the crossed token's `type` equals a `*_close`
    literal whose `*_open` counterpart is pushed in the same module."""
    r = RuleResult("MOVE", "two positions of a token stream are exchanged only across closing tokens of the moving rule's own pair (the index "
                           "that determines how far a token is moved advances under a test of `type` against that literal)")
    n_sw = 0
    for f in sorted(c.cg.parse_phase(), key=lambda x: x.qual):
        sc = c.tf.scope(f)

        def tok_list(e: ast.AST) -> bool:
            t = sc.type(e)
            return isinstance(t, tuple) and len(t) > 1 and t[0] == "list" and t[1] == "Token"
        swaps: list[tuple[ast.AST, ast.Subscript, ast.Subscript]] = []
        body_stmts = [n for n in own_nodes(f.node) if isinstance(n, ast.Assign)]
        for n in body_stmts:
            # a, b = b, a
            if len(n.targets) == 1 and isinstance(n.targets[0], ast.Tuple) and isinstance(n.value, ast.Tuple) and len(n.targets[0].elts) == 2 \
                    and len(n.value.elts) == 2:
                a, b = n.targets[0].elts
                x, y = n.value.elts
                if isinstance(a, ast.Subscript) and isinstance(b, ast.Subscript) and U(a) == U(y) and U(b) == U(x) and tok_list(a.value) and U(a.value) == U(b.value):
                    swaps.append((n, a, b))
        # tmp = L[j]; L[j] = L[i]; L[i] = tmp
        for blk in _blocks(f.node):
            for s1, s2, s3 in zip(blk, blk[1:], blk[2:]):
                if all(isinstance(s_, ast.Assign) and len(s_.targets) == 1 for s_ in (s1, s2, s3)) and isinstance(s1.targets[0], ast.Name) \
                        and isinstance(s1.value, ast.Subscript) and isinstance(s2.targets[0], ast.Subscript) and isinstance(s2.value, ast.Subscript) \
                        and isinstance(s3.targets[0], ast.Subscript) and isinstance(s3.value, ast.Name) and s3.value.id == s1.targets[0].id \
                        and U(s2.targets[0]) == U(s1.value) and U(s3.targets[0]) == U(s2.value) and tok_list(s1.value.value):
                    swaps.append((s2, s2.targets[0], s3.targets[0]))
        if not swaps:
            continue
        r.functions += 1
        # literal types written in this module (push sites and retagging stores `token.type = "s_open"`)
        lits_mod = {x.value for x in ast.walk(f.module.tree) if isinstance(x, ast.Constant) and isinstance(x.value, str) and x.value.endswith(("_open", "_close"))}
        # ... and the kinds the module's functions produce through a shared helper (`convertToTag(tok, "s", 1, "~~")`)
        for ts_ in token_sites(c):
            if ts_.func.module is f.module and ts_.kinds:
                lits_mod |= {k for k in ts_.kinds if k.endswith(("_open", "_close"))}
        for (stmt, a, b) in swaps:
            n_sw += 1
            key = f"{f.short}|swap|{alpha(f, stmt)[:60]}"
            idx_names = {x.id for e in (a.slice, b.slice) for x in ast.walk(e) if isinstance(x, ast.Name)}
            # the loops that advance one of the indices before the exchange
            verdicts = []
            # candidate loops: preceding siblings of the exchange (or of one of its ancestors), innermost first, up to the loop
            # that re-initialises the indices
            cands: list[ast.While] = []
            node: ast.AST = stmt
            parents = f.module.parents
            while node is not f.node and node in parents:
                par = parents[node]
                for fld in ("body", "orelse", "finalbody"):
                    blk_ = getattr(par, fld, None)
                    if isinstance(blk_, list) and any(x is node for x in blk_):
                        k_ = next(i_ for i_, x in enumerate(blk_) if x is node)
                        cands += [x for x in blk_[:k_] if isinstance(x, ast.While)]
                if isinstance(par, (ast.While, ast.For)) and any(
                        isinstance(x, ast.Assign) and any(isinstance(t, ast.Name) and t.id in idx_names for t in x.targets) for x in par.body):
                    break          # the indices are (re)bound inside this loop: earlier loops do not matter
                node = par
            for L in cands:
                adv = {t.id for x in ast.walk(L) if isinstance(x, (ast.AugAssign, ast.Assign)) for t in ([x.target] if isinstance(x, ast.AugAssign) else x.targets)
                       if isinstance(t, ast.Name)} & idx_names
                if not adv or any(x is stmt for x in ast.walk(L)):
                    continue
                if not (L.lineno < stmt.lineno):
                    continue
                # the test must contain `<list>[idx..].type == "<x>_close"` with x_open known in the module; no other test on the crossed token
                ok = False
                other = []
                for cmp_ in [x for x in ast.walk(L.test) if isinstance(x, ast.Compare)]:
                    if len(cmp_.ops) == 1 and isinstance(cmp_.ops[0], ast.Eq):
                        for l_, r_ in ((cmp_.left, cmp_.comparators[0]), (cmp_.comparators[0], cmp_.left)):
                            if isinstance(l_, ast.Attribute) and l_.attr == "type" and isinstance(r_, ast.Constant) and isinstance(r_.value, str) \
                                    and r_.value.endswith("_close") and r_.value[:-6] + "_open" in lits_mod:
                                ok = True
                for x in ast.walk(L.test):
                    if isinstance(x, ast.Attribute) and x.attr in ("nesting", "level", "tag", "markup", "content") and isinstance(x.value, ast.Subscript):
                        other.append(x.attr)
                verdicts.append((L, ok and not other, other))
            if not verdicts:
                r.add(key, c.where(f, stmt), f.short, U(stmt)[:70], "exempt", "no preceding loop determines the distance of the exchange (adjacent or fixed positions)")
                continue
            bad = [v for v in verdicts if not v[1]]
            r.add(key, c.where(f, stmt), f.short, U(stmt)[:70], "violation" if bad else "discharged",
                  (f"the loop at line {bad[0][0].lineno} that decides how far the token is moved does not stop at tokens of other constructs "
                   f"(it tests {sorted(set(bad[0][2])) or 'no `type` literal of this module'}): the token can be moved across a closing tag of another "
                   f"pair (link_close, em_close), which un-nests the stream") if bad else
                  "the target index advances only over closing tokens of this module's own pair")
    if n_sw < 1:
        raise AnchorError("no exchange of two token-stream positions found (the lone strikethrough marker is expected)")
    r.floor = 1
    return r
